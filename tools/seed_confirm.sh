#!/bin/bash
# tools/seed_confirm.sh <name>
# Confirms a stored seeded change (/verif/seeded/<name>/patch.diff + seeded_demo.rs) in a scratch
# worktree of /repo's HEAD: applies (falling back to a 3-way / fuzzy apply when the tree has moved
# since the change was written), builds without warnings, test-suite summary, demo fails with the
# change and passes without it. Writes /verif/seeded/<name>/confirm.json. Never touches /repo's tree.
set -u
name="$1"; d=/verif/seeded/$name; W=/tmp/confirm_$name
rm -rf "$W"; git -C /repo worktree prune; git -C /repo worktree add -q --detach "$W" HEAD || exit 2
cd "$W"
how=plain
if ! git apply "$d/patch.diff" 2>/dev/null; then
  how=3way
  if ! git apply --3way "$d/patch.diff" 2>/dev/null; then
    git checkout -q -- . ; how=fuzz
    if ! patch -p1 --fuzz=3 -s < "$d/patch.diff" >/dev/null 2>&1; then
      echo "[$name] PATCH DOES NOT APPLY to HEAD"; cd /; git -C /repo worktree remove --force "$W"; exit 3
    fi
  fi
  git reset -q 2>/dev/null
fi
git diff -- datasketches/src > /tmp/$name.rebased.patch
feat=""; grep -q "verif" "$d/seeded_demo.rs" && feat="--features verif-hooks"
cp "$d/seeded_demo.rs" datasketches/tests/seeded_demo.rs
build=$(cargo build --offline -p datasketches 2>&1 | grep -c "^warning\|^error")
suite=$(cargo test --workspace --no-fail-fast --offline 2>&1 | grep -E "^test result" | awk '{p+=$4; f+=$6} END {print p" passed "f" failed"}')
cargo test --offline -p datasketches --test seeded_demo $feat >/tmp/$name.with.log 2>&1; with=$?
dw=$(grep -E "^test result" /tmp/$name.with.log | tail -1 | awk '{print $4" passed "$6" failed"}')
git apply -R /tmp/$name.rebased.patch
cargo test --offline -p datasketches --test seeded_demo $feat >/tmp/$name.without.log 2>&1; without=$?
dwo=$(grep -E "^test result" /tmp/$name.without.log | tail -1 | awk '{print $4" passed "$6" failed"}')
cd /; git -C /repo worktree remove --force "$W"
cp /tmp/$name.rebased.patch $d/patch.applied.diff
python3 - "$name" "$how" "$build" "$suite" "$with" "$without" "$dw" "$dwo" "$feat" "$(git -C /repo rev-parse --short HEAD)" <<'PY'
import json,sys
name,how,build,suite,w,wo,dw,dwo,feat,head=sys.argv[1:11]
json.dump({"repo_head":head,"applied":how,"build_warnings_or_errors":int(build),"test_suite_with_change_and_demo_file":suite,
 "demo_cmd":f"cargo test --offline -p datasketches --test seeded_demo {feat}".strip(),
 "demo_with_change":{"exit":int(w),"result":dw},"demo_without_change":{"exit":int(wo),"result":dwo}},
 open(f'/verif/seeded/{name}/confirm.json','w'),indent=1)
PY
echo "[$name] applied=$how build=$build suite=[$suite] demo with: exit $with ($dw) without: exit $without ($dwo)"
