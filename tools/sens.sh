#!/bin/bash
# tools/sens.sh <property> <python-edit-snippet-file>  — development-time sensitivity probe:
# applies a deliberate breakage to /repo's working tree, runs the quick check (expects exit 1), reverts.
set -u
prop="$1"; edit="$(realpath "$2")"
cd /repo && git diff --quiet || { echo "repo dirty"; exit 2; }
python3 "$edit" || { echo "edit failed"; git -C /repo checkout -- .; exit 2; }
cd /verif && ./check "$prop" quick > /tmp/sens.out 2>/tmp/sens.err; rc=$?
git -C /repo checkout -- .
echo "$prop $(basename $edit): exit=$rc $(grep -c '^VIOLATION' /tmp/sens.out) violation line(s); $(grep -m2 'class:' /tmp/sens.err | tr '\n' ' ' | cut -c1-220)"
