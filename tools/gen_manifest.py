#!/usr/bin/env python3
"""Regenerates /verif/MANIFEST.json from the table below (kept in one place so it stays valid)."""
import json, subprocess, os
ROOT = os.path.dirname(os.path.dirname(os.path.abspath(__file__)))

CLAIMED = {
 # id: (category, text, note, technique, design_ref)
 "C14": ("fault_enumeration",
         "Fault injection on the raw (unframed) disk and wire between a real Writer node and the real readers: for PRNG-drawn valid images of 19 family/variant kinds the injector enumerates truncation at every byte offset, every single-bit flip and 17 boundary byte values over the header, boundary values in every aligned u16/u32/u64 header field, and also enumerates pairs of header bytes and (byte, 32-bit field) pairs at boundary values, re-encodes the pair table of every CPC image around pair lists no writer produces (independent entropy encoder, validated by the identity re-encoding on every image), draws foreign-writer images that are self-consistent lies (a wrong part with the derived header fields recomputed to match), and samples multi-fault combinations of torn writes, zeroed/stale/duplicated/swapped sectors, extension, splices, random buffers and misrouting to other families' readers; every damaged buffer goes to every deserialize entry point (and CpcWrapper::new) in supervised child processes under an allocation-accounting allocator, in both build profiles; the call must end Ok or Err - no panic, abort, hang, or allocation out of proportion to the input - and every Ok value must survive the recovery workload (accessors, 64 updates, merges both ways, to_sketch, re-serialize, re-deserialize).",
         "Relaxed oracle (only here): values are never compared. Budget 64*len + 64 KiB, with configuration-implied sizes exempt up to the 1 GiB hard cap. Seven narrowly identified abort classes (empty-form Bloom / Count-Min images that encode a huge configuration) are recorded findings; everything else found was repaired in /repo (see known_findings.txt).",
         "deterministic simulation with fault injection: enumerated + sampled storage/transport corruption of valid images, allocator seam, supervised children", "DESIGN.md §4 C14"),
 "C17": ("exploration",
         "The standard global invariant of deterministic simulation: every simulated scenario of the other claimed properties is executed, valid operations only, in both build profiles (release; armed = debug-assertions + overflow-checks on) with every library call under a panic guard, plus a dedicated crash/restart scenario pinned to the documented configuration extremes (HLL lg_k 4/21, CPC 4/16/21, theta 5, t-digest k 10, Frequent Items map 8, Bloom 1 bit/1 hash, Count-Min 1x3 with narrow counters) and, before each of its runs, a probe of the public surface at both ends of every documented parameter range (t-digest k 10..65535, CPC/theta lg_k 26, sampling probabilities down to f32::MIN_POSITIVE, 2^31 Frequent Items map, 127 Count-Min rows, MAX_NUM_HASHES Bloom hashes, infinite query points, zero counts); the scenario's twin comparison stays armed so that release-profile wrap-around surfaces as a mismatch; any panic raised inside the library, identified by source location and statement, is the violation.",
         "Trusted: the preconditions of DESIGN.md Appendix C define valid use. Model mismatches found by the re-run scenarios belong to their own property; only panics/aborts count for those parts.",
         "deterministic simulation: all scenarios re-run in two build profiles with the library's own assertions and overflow checks armed; panic = violation", "DESIGN.md §4 C17"),
 "C18": ("exploration",
         "A measurement tap on the simulated wire/disk: long-lived workers of every family are fed streams of up to 2^18 (2^22 thorough) distinct, repeated, adversarially ordered and crafted items and flush at every power-of-two prefix; every image is measured against the size its configuration dictates (HLL exact byte counts per mode and the promotion rule, theta retained-entry bounds after every update and after trim, Frequent Items capacity after every update, Bloom/Count-Min constant size), and CPC images above max_serialized_bytes are counted per sketch lifetime with the batch rate compared against the documented 0.1% (Bernstein margin at 1e-9).",
         "Trusted: the size formulas of the statement. The simulator contributes only the measurement point; CPC is measured on prefixes that are sketches of random item sets, which is what its empirical bound is stated for.",
         "deterministic simulation: size tap on every flushed image at power-of-two stream prefixes + batch-level rate clause", "DESIGN.md §4 C18"),
 "C11": ("exploration",
         "Seeded crash/restart simulation per family: a primary and a never-crashed twin receive the identical PRNG-drawn history; the primary writes framed checkpoints (synced or not), is crashed at arbitrary points with the unsynced newest generation torn or surviving, and restarts from the newest verifiable generation through the real deserialize plus WAL replay; after every operation following a restart all public accessors must be equal bit for bit, images byte-identical where canonical and equal as independently decoded state otherwise, CpcWrapper equal to the sketch; compact theta takes part in the degenerate form (every delta width, both serial forms, byte-identical re-serialization); every run ends with the back-to-back checkpoint-crash-restart schedule plus a further update batch and merge.",
         "Trusted: the harness frame CRC and durable WAL (the library only ever restores intact images); the twin (same real code, same history) is the oracle. One narrowly identified sub-class (Frequent Items purge after restore) is a recorded finding.",
         "deterministic simulation: crash/restart at arbitrary points with torn/lost checkpoint generations and WAL replay vs never-crashed twin", "DESIGN.md §4 C11"),
 "C13": ("exploration",
         "Simulated foreign writers: an independent spec encoder turns PRNG-drawn abstract states into every image variant the Java/C++ writers emit (HLL compact and updatable list/set/array layouts, compact-flag arrays, both Hll4 aux layouts, out-of-order flag; theta serial versions 1-4 in empty/single/exact/estimating, ordered/unordered forms; t-digest native f64/f32 with buffered values and the reference asBytes/asSmallBytes encodings; Bloom dirty counts; Frequent Items longs/strings/empty; Count-Min over all counter types) and delivers them to real nodes, which must restore exactly the encoded state (accessors, estimates, flags), union/merge it with local sketches to the model union, keep it equal to the model under further updates, and re-serialize to an image the independent decoder reads back to the same state.",
         "Trusted base: the format transcription in DESIGN.md Appendix A (shared with C12) and the abstract-state models.",
         "deterministic simulation: foreign-writer stubs (independent spec encoder) injecting image variants into real readers vs abstract-state model", "DESIGN.md §4 C13"),
 "C12": ("exploration",
         "A simulated foreign peer: every image a real Writer node emits - after PRNG-drawn histories of crafted and hashed updates, unions/merges with sketches of other sizes, trims/inversions, through every mode/flavor/form of every family, plus spot runs at CPC lg_k 19-21 - is decoded by an independent decoder written from the cross-language format description, which rejects what a Java/C++ reader would reject or misread and otherwise yields an abstract state that must equal the reference model of the stream (registers/coupons/aux/kxq/flags, CPC matrix decompressed with decode tables derived from the encode tables, theta entries/theta/minimal widths, Bloom words, Count-Min table, Frequent Items pairs, t-digest centroids).",
         "Trusted base: the format transcription in DESIGN.md Appendix A and the CPC entropy-table data (encode side). No fault kind bears on this property: the simulator contributes the stub peer and the population of states.",
         "deterministic simulation: foreign-reader stub (independent spec decoder) on every emitted image vs reference model", "DESIGN.md §4 C12"),
 "C10": ("exploration",
         "Seeded simulation of a t-digest cluster (1-16 nodes, k 10..=500): value streams of ten shapes incl. NaN/inf to be ignored, a PRNG-drawn merge DAG (borrowed digests, images over an exactly-once network with reorder/loss, freeze->unfreeze), framed checkpoints with crash/restart and WAL replay, and foreign digests with heavy first/last/single centroids in the native f64/f32 and reference-implementation encodings; after every merge, restart and foreign contribution every reached digest state is checked: total_weight, exact min/max, rank and quantile monotone and in range on dense grids, exact at the extremes, rank(quantile(q)) within the digest's own resolution, cdf/pmf consistent with rank for split lists of length 0,1,2,17, frozen digest identical.",
         "Trusted: exact multiset model, independent t-digest codec (DESIGN.md Appendix A). The deciding oracle is per state; the simulator contributes merge orders, restarts and foreign images. One narrowly identified sub-class is a recorded finding (known_findings.txt).",
         "deterministic simulation: merge DAG + crash/restart + foreign-writer images, per-state invariants vs exact multiset", "DESIGN.md §4 C10"),
 "C15": ("exploration",
         "Same simulated t-digest cluster with the size/accuracy oracle: at every power-of-two stream prefix and after every merge/restart the centroid list parsed from the image has <= 2k+30 centroids (bounded image size), weights sum to total_weight, means are sorted inside [min,max], and for nodes with exact ancestry the rank error against the sorted data stays within C*q(1-q)Z/2k + 1.5/n (C = 12, calibrated 3x the largest ratio 3.81 seen over 40 000 thorough runs) and within one sample at the extremes, for streamed and merged digests alike (k taken as the smallest in the ancestry).",
         "Trusted: sorted exact data; calibration constant frozen in sim/src/scen/c10.rs. Streams spanning > 30 orders of magnitude are a recorded finding (inherent to the algorithm).",
         "deterministic simulation: merge DAG + restarts, image size / conservation / rank error vs exact data at every power-of-two prefix", "DESIGN.md §4 C10 and C15"),
 "C08": ("exploration",
         "Seeded simulation of a Count-Min cluster: 2-4 nodes of one counter type (all eight) and shape take weighted update bursts kept inside the counter type, merge each other in memory or as images over an exactly-once network (reorder, loss/retransmit), and for unsigned types run halve/decay epochs while contributions are in flight; total_weight is checked after every update, and after every merge/epoch/checkpoint the serialized table is compared with a model table built from the reference MurmurHash3 and row-seed derivation, estimate >= truth / <= total and lb <= est <= ub for every item and for never-inserted probes, estimate >= scaled truth after epochs; the confidence clause is evaluated per batch with a Hoeffding margin at 1e-9.",
         "Trusted: exact truth map and model table (reference hashes validated by C16). The confidence clause is one-sided and loose (the theory's bound is Markov's).",
         "deterministic simulation: exactly-once merge network with racing decay epochs vs exact model table", "DESIGN.md §4 C08"),
 "C09": ("exploration",
         "Seeded simulation of a Bloom-filter cluster: compatible filters of one shape on 2-4 nodes take inserts, union over an at-least-once network (reorder, duplicate, loss), intersect epochs, invert, reset and foreign dirty-marker images; bits_used and capacity are checked after every insert, and after every set operation the serialized bit array is compared with a model array filled by reference XXH64 double hashing, every member must be contained (also after a round trip), contains must agree with the reference positions on never-inserted probes, contains_and_insert with prior membership; with_accuracy(n,p) false-positive counts are evaluated per batch against 1.5p with a Bernstein margin at 1e-9.",
         "Trusted: member-set and bit-vector model (reference XXH64 validated by C16); independent Bloom encoder for foreign images.",
         "deterministic simulation: at-least-once union network + epochs vs reference bit-vector model", "DESIGN.md §4 C09"),
 "C07": ("exploration",
         "Seeded simulation of a Frequent Items cluster: 2-6 nodes (i64/u64/String items, equal or mixed map sizes) take update bursts (incl. all-equal counts that make a purge remove every counter) and absorb each other's sketches along a PRNG-drawn merge DAG, in memory or as images over an exactly-once network (reorder, suppressed duplicates, loss/retransmit), with framed checkpoints, crashes with torn or surviving newest generation and WAL replay; after every event the exact stream weight / capacity / epsilon clauses are checked, and after every merge, restart and at quiescence every item of the domain is checked against the exact frequency map (bracketing, width, estimate range, frequent_items both error types, row/point-query agreement).",
         "Trusted: exact frequency-map model; harness transport de-dup and durable WAL (torn checkpoints are rejected by the harness frame CRC and never reach the library).",
         "deterministic simulation: merge DAG over exactly-once network + crash/restart with torn checkpoints vs exact frequency model", "DESIGN.md §4 C07"),
 "C05": ("exploration",
         "Seeded simulation of five CPC replicas of one lg_k (two on a shared ordered channel with duplicates; three on their own at-least-once channels with reordering, duplication, loss/retransmit) fed crafted (row,col) streams that walk every flavor and window offset up to 56; after every delivery num_coupons equals the model popcount, and at every flavor/offset change, scripted checkpoints and quiescence the reconstructed bit matrix, validate(), window offset, window allocation and soundness of first_interesting_column are checked against the bit-matrix model; identical sequences must give bit-identical estimates and all replicas converge.",
         "Trusted: bit-matrix model and the documented offset/flavor thresholds computed in wide integers. Streams are restricted to left-packed matrices (the surprising-value table holds at most 24K entries in every implementation); see DESIGN.md.",
         "deterministic simulation: replicas under reordered/duplicated/lossy delivery vs bit-matrix reference model", "DESIGN.md §4 C05"),
 "C06": ("exploration",
         "Seeded simulation of a CPC aggregation tree: workers steered into every flavor flush sketches in memory or as serialized images over an at-least-once network (reorder, duplicate, loss) to aggregators holding CpcUnion and on to a root; after every delivery the union's lg_k, num_coupons and to_sketch() result (matrix, validate, offset/window/first_interesting_column consistency, merged flag, image without HIP) are compared with the OR of the folded input matrices.",
         "Trusted: OR-of-folded-matrices model; wire deliveries use the real serialize/deserialize (C11's subject).",
         "deterministic simulation: at-least-once network with reorder/dup/loss feeding unions vs OR-of-matrices model", "DESIGN.md §4 C06"),
 "C02": ("exploration",
         "Seeded simulation of six HLL replicas (Hll4/6/8 on a shared ordered channel with duplicates; Hll4/6/8 each on its own at-least-once channel with reordering, duplication and loss/retransmit) fed crafted coupon streams that force every promotion, Hll4 cur_min shifts with a live aux map and register values to 63; each replica is compared with the textbook per-slot-maximum model of exactly what it was delivered (state hook and independently decoded serialize() image), the three types must agree bit-for-bit on estimate and bounds after every shared delivery, and all replicas must converge at quiescence. Sampling of schedules and streams, not proof.",
         "Trusted: the model in sim/src/model/hll.rs, the independent image decoder, C16 for item->coupon. The deciding oracle is the per-replica model; the network contributes permutations and multiplicities.",
         "deterministic simulation: replicas under reordered/duplicated/lossy delivery vs reference model; convergence at quiescence", "DESIGN.md §4 C02"),
 "C03": ("exploration",
         "Seeded simulation of an HLL aggregation tree: workers of mixed lg_k/type/mode flush sketches in memory, as serialized images and as out-of-order images over an at-least-once network (reorder, duplicate, loss) to aggregators holding HllUnion, plus foreign out-of-order array images, update_value, reset and to_sketch->root; every aggregator is checked against the model of the contributions it absorbed since reset (coupon set or max-folded registers at min(lg_max_k, array inputs), consistent cached counts/kxq/aux), with estimate/bounds required bit-identical across to_sketch types and equal to the union's own, and > 0 after a non-empty input.",
         "Trusted: contribution-set model, independent HLL encoder/decoder. Order independence is demanded of state and lg_k only (HIP estimates are legitimately history dependent).",
         "deterministic simulation: at-least-once network with reorder/dup/loss feeding unions vs contribution-set model", "DESIGN.md §4 C03"),
 "C16": ("exploration",
         "Seeded simulation of the one stream-shaped seam in the library (Hasher::write): every run draws byte strings, seeds and chunkings (short writes, zero-length writes, block-edge cuts; all 2^(n-1) splits for n<=12; every other chunking goes through the typed Hasher methods write_u8..write_u128; one item in four is constructed to have a prescribed extreme Murmur digest) and compares the library digests and every derived quantity (HLL coupon, theta hash, CPC row/col, Count-Min buckets, Bloom positions, seed hash) with independent one-shot reference hashes. Sampling, not proof: a clean batch is evidence over the explored chunkings.",
         "Trusted: sim/src/refhash.rs (validated against canonical MurmurHash3/XXH64 vectors at start-up); std Hash impls feed little-endian bytes.",
         "deterministic simulation: PRNG-chosen write chunking (short/empty writes) vs reference model", "DESIGN.md §4 C16"),
}

NOT_APPLICABLE = {
 "C01": "Distributional statement (bias, spread, coverage over random item sets): no schedule, crash point, fault or interleaving bears on it and no single run can violate it; deciding it is Monte-Carlo statistics, not simulation. Its one deterministic clause (lb <= est <= ub, nested) is evaluated as a side probe inside the HLL/CPC scenarios and reported as NOTE lines only.",
 "C04": "Single theta sketch, single caller: this port has no theta union/intersection, ThetaSketch has no serialized form, the state is legitimately order-dependent and the quantifier asks for crafted hash inputs; nothing for a scheduler or fault injector to act on. Theta images still take part in the serialization scenarios.",
}

PENDING_REASON = "check not built yet in this session (in progress; see DESIGN.md §9 build order)"

def main():
    props = [json.loads(l)["id"] for l in open(os.path.join(ROOT, "properties.jsonl"))]
    try:
        hooks_commits = subprocess.check_output(["git", "-C", "/repo", "log", "--format=%H %s"], text=True).splitlines()
        hook_shas = [l.split()[0] for l in hooks_commits if " verif hooks" in l]
    except Exception:
        hook_shas = []
    checks = []
    for pid in props:
        if pid in CLAIMED:
            cat, text, note, tech, ref = CLAIMED[pid]
            checks.append({
                "property_id": pid,
                "quick_cmd": f"./check {pid} quick",
                "thorough_cmd": f"./check {pid} thorough",
                "evidence_file": f"/verif/evidence/{pid}.json",
                "replay_cmd_template": f"./check {pid} --replay {{path}}",
                "engine": "sketchsim",
                "level_claimed": {"category": cat, "text": text, "design_ref": ref},
                "level_note": note,
                "technique": tech,
            })
    na = []
    for pid in props:
        if pid in CLAIMED:
            continue
        na.append({"property_id": pid, "reason": NOT_APPLICABLE.get(pid, PENDING_REASON)})
    manifest = {
        "version": 1,
        "setup_cmd": "cd /verif/sim && CARGO_NET_OFFLINE=true cargo build --release --offline && CARGO_NET_OFFLINE=true cargo build --offline",
        "hooks": {
            "guard": "cargo feature verif-hooks on crate datasketches (off by default)",
            "enable": "sim/Cargo.toml: datasketches = { path = \"/repo/datasketches\", features = [\"verif-hooks\"] }",
            "baseline_off_cmd": "cd /repo && cargo test --workspace --no-fail-fast --offline",
            "source_commits": hook_shas,
            "add_only": True,
        },
        "engines": [{
            "name": "sketchsim",
            "path": "/verif/sim",
            "serves_properties": sorted(CLAIMED.keys()),
            "kind_free_text": "hand-written deterministic simulator (seeded PRNG -> action script -> executor with reference-model oracles; net/disk/alloc/chunking seams; supervised child processes; ddmin; replay files)",
        }],
        "checks": checks,
        "not_applicable": na,
        "notes": "All checks: ./check <id> quick|thorough rebuilds sim against /repo's working tree in two profiles (release; 'armed' = debug-assertions + overflow-checks). VERIF_SEED honoured (default 20260926). Exit 2 = harness error. Known findings: /verif/known_findings.txt.",
    }
    json.dump(manifest, open(os.path.join(ROOT, "MANIFEST.json"), "w"), indent=1)
    print("MANIFEST.json written:", len(checks), "checks,", len(na), "not claimed")

if __name__ == "__main__":
    main()
