#!/bin/bash
# tools/seed_eval.sh <property> <seed-dir> <name> [extra properties to run]
# 1. confirms an independently written breaking change in a scratch worktree of /repo's HEAD
#    (compiles, test-suite summary unchanged, demo fails with / passes without);
# 2. applies it to /repo, runs the quick check(s), reverts /repo;
# 3. stores patch, demo and meta.json under /verif/seeded/<name>/.
set -u
prop="$1"; src="$2"; name="$3"; shift 3; extra="$*"
W=/tmp/confirm_$name
git -C /repo diff --quiet || { echo "repo dirty"; exit 2; }
rm -rf "$W"; git -C /repo worktree prune; git -C /repo worktree add -q --detach "$W" HEAD || exit 2
cp "$src/seeded_patch.diff" /tmp/$name.patch
feat=""; grep -q "verif" "$src/datasketches/tests/seeded_demo.rs" && feat="--features verif-hooks"
cd "$W"
git apply /tmp/$name.patch || { echo "PATCH DOES NOT APPLY to current HEAD"; cd /; git -C /repo worktree remove --force "$W"; exit 3; }
cp "$src/datasketches/tests/seeded_demo.rs" datasketches/tests/seeded_demo.rs
build=$(cargo build --offline -p datasketches 2>&1 | grep -c "^warning\|^error")
suite=$(cargo test --workspace --no-fail-fast --offline 2>&1 | grep -E "^test result" | awk '{p+=$4; f+=$6} END {print p" passed "f" failed"}')
cargo test --offline -p datasketches --test seeded_demo $feat >/tmp/$name.with.log 2>&1; with=$?
git apply -R /tmp/$name.patch
cargo test --offline -p datasketches --test seeded_demo $feat >/tmp/$name.without.log 2>&1; without=$?
demo_pass=$(grep -E "^test result" /tmp/$name.without.log | tail -1)
demo_fail=$(grep -E "^test result" /tmp/$name.with.log | tail -1)
cd /; git -C /repo worktree remove --force "$W"
echo "[$name] build warnings/errors: $build; suite with change: $suite; demo with change exit=$with ($demo_fail); without exit=$without ($demo_pass)"
# --- run the checks against /repo with the change applied
git -C /repo apply /tmp/$name.patch || { echo "cannot apply to /repo"; exit 3; }
results=""
for p in $prop $extra; do
  ( cd /verif && ./check $p quick >/tmp/$name.$p.out 2>/tmp/$name.$p.err ); rc=$?
  cls=$(grep -m3 'class:' /tmp/$name.$p.err | sed 's/^ *class: //' | tr '\n' ';' | cut -c1-300)
  echo "[$name] ./check $p quick -> exit $rc; $(grep -c '^VIOLATION' /tmp/$name.$p.out) VIOLATION line(s); classes: $cls"
  results="$results{\"check\":\"$p\",\"exit\":$rc,\"classes\":\"$(echo $cls | sed 's/"/\\"/g')\"},"
done
git -C /repo checkout -- .
mkdir -p /verif/seeded/$name
cp /tmp/$name.patch /verif/seeded/$name/patch.diff
cp "$src/datasketches/tests/seeded_demo.rs" /verif/seeded/$name/seeded_demo.rs
cp "$src/seeded_meta.txt" /verif/seeded/$name/author_notes.txt 2>/dev/null
python3 - "$name" "$prop" "$build" "$suite" "$with" "$without" "$feat" "[${results%,}]" <<'PY'
import json,sys
name,prop,build,suite,w,wo,feat,results=sys.argv[1:9]
notes=open(f'/verif/seeded/{name}/author_notes.txt').read() if True else ''
meta={"property":prop,"name":name,"origin":"independent sub-agent given only the property text and a scratch worktree",
 "needs_to_manifest":notes.strip()[:1500],
 "confirmed_in_scratch_worktree":{"build_warnings_or_errors":int(build),"test_suite_with_change":suite,
   "demo_cmd":f"cargo test --offline -p datasketches --test seeded_demo {feat}".strip(),
   "demo_exit_with_change":int(w),"demo_exit_without_change":int(wo)},
 "checks_run_against_it":json.loads(results)}
json.dump(meta,open(f'/verif/seeded/{name}/meta.json','w'),indent=1)
PY
