#!/bin/bash
# tools/seed_check.sh <name> <property>...
# Applies the confirmed form of a seeded change (patch.applied.diff, else patch.diff) to /repo, runs the
# quick check(s), reverts /repo, and records the outcome in /verif/seeded/<name>/meta.json.
set -u
name="$1"; shift; d=/verif/seeded/$name
git -C /repo diff --quiet || { echo "repo dirty"; exit 2; }
pf=$d/patch.applied.diff; [ -s "$pf" ] || pf=$d/patch.diff
git -C /repo apply "$pf" || { echo "[$name] cannot apply to /repo"; exit 3; }
results=""
for p in "$@"; do
  ( cd /verif && ./check $p quick >/tmp/$name.$p.out 2>/tmp/$name.$p.err ); rc=$?
  cls=$(grep 'class:' /tmp/$name.$p.err | sed 's/^ *class: //' | sort -u | head -4 | tr '\n' ';' | cut -c1-400)
  echo "[$name] ./check $p quick -> exit $rc; $(grep -c '^VIOLATION' /tmp/$name.$p.out) VIOLATION line(s); classes: $cls"
  results="$results{\"check\":\"$p\",\"exit\":$rc,\"classes\":\"$(echo $cls | sed 's/\\/\\\\/g; s/"/\\"/g')\"},"
done
git -C /repo checkout -- .
python3 - "$name" "[${results%,}]" "$(git -C /repo rev-parse --short HEAD)" <<'PY'
import json,sys,os
name,results,head=sys.argv[1:4]
f=f'/verif/seeded/{name}/meta.json'
m=json.load(open(f))
c=f'/verif/seeded/{name}/confirm.json'
if os.path.exists(c): m["confirmed_in_scratch_worktree"]=json.load(open(c))
m["checks_run_against_it"]=json.loads(results)
m["checked_at_repo_head"]=head
m.pop("status",None)
json.dump(m,open(f,'w'),indent=1)
PY
