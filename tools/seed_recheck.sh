#!/bin/bash
# tools/seed_recheck.sh <name> <property>...   re-runs quick checks against a stored seeded change
# (applies /verif/seeded/<name>/patch.diff to /repo, runs, reverts) and appends the outcome to meta.json
set -u
name="$1"; shift
git -C /repo diff --quiet || { echo "repo dirty"; exit 2; }
git -C /repo apply /verif/seeded/$name/patch.diff || { echo "cannot apply"; exit 3; }
results=""
for p in "$@"; do
  ( cd /verif && ./check $p quick >/tmp/$name.$p.out 2>/tmp/$name.$p.err ); rc=$?
  cls=$(grep -m3 'class:' /tmp/$name.$p.err | sed 's/^ *class: //' | tr '\n' ';' | cut -c1-300)
  echo "[$name] recheck ./check $p quick -> exit $rc; $(grep -c '^VIOLATION' /tmp/$name.$p.out) VIOLATION line(s); classes: $cls"
  results="$results{\"check\":\"$p\",\"exit\":$rc,\"classes\":\"$(echo $cls | sed 's/"/\\"/g')\"},"
done
git -C /repo checkout -- .
python3 - "$name" "[${results%,}]" <<'PY'
import json,sys
name,results=sys.argv[1:3]
f=f'/verif/seeded/{name}/meta.json'
m=json.load(open(f))
m.setdefault("rechecked_after_strengthening",[]).extend(json.loads(results))
json.dump(m,open(f,'w'),indent=1)
PY
