p='/repo/datasketches/src/cpc/union.rs'; s=open(p).read()
a="    if stride == ((stride >> 1) << 1) {"; assert a in s
open(p,'w').write(s.replace(a,"    if stride != ((stride >> 1) << 1) {"))
