p='/repo/datasketches/src/bloom/sketch.rs'; s=open(p).read()
a="                num_bits_set = raw_num_bits_set;"; assert a in s
open(p,'w').write(s.replace(a,"                num_bits_set = raw_num_bits_set & !1;"))
