p='/repo/datasketches/src/tdigest/sketch.rs'; s=open(p).read()
a="        self.max = self.max.max(value);\n    }"; assert a in s
open(p,'w').write(s.replace(a,"        if self.buffer.len() > 1 { self.max = self.max.max(value); }\n    }"))
