p='/repo/datasketches/src/cpc/pair_table.rs'; s=open(p).read()
a="""        while fetched != u32::MAX {
            self.slots[probe] = u32::MAX;
            self.must_insert(fetched);"""; assert a in s
open(p,'w').write(s.replace(a,"""        while fetched != u32::MAX && probe & 1 == 0 {
            self.slots[probe] = u32::MAX;
            self.must_insert(fetched);"""))
