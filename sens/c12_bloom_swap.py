p='/repo/datasketches/src/bloom/sketch.rs'; s=open(p).read()
a="""        bytes.write_u16_le(self.num_hashes); // Bytes 4-5
        bytes.write_u16_le(0); // Bytes 6-7: unused"""; assert a in s
s=s.replace(a,"""        bytes.write_u16_le(0); // Bytes 4-5
        bytes.write_u16_le(self.num_hashes); // Bytes 6-7""")
a="""        let num_hashes = cursor
            .read_u16_le()
            .map_err(insufficient_data("num_hashes"))?;"""; assert a in s
s=s.replace(a,"""        let _unused0 = cursor
            .read_u16_le()
            .map_err(insufficient_data("unused_header"))?;
        let num_hashes = cursor
            .read_u16_le()
            .map_err(insufficient_data("num_hashes"))?;""")
a="""        // Bytes 6-7: unused (u16)
        let _unused = cursor
            .read_u16_le()
            .map_err(insufficient_data("unused_header"))?;"""; assert a in s
s=s.replace(a,"")
open(p,'w').write(s)
