p='/repo/datasketches/src/hll/array4.rs'; s=open(p).read()
a="(old_byte & 0x0F) | (value << 4) // set high nibble"; assert a in s
open(p,'w').write(s.replace(a,"(old_byte & 0x0F) | ((value & 7) << 4) // set high nibble"))
