p='/repo/datasketches/src/tdigest/sketch.rs'; s=open(p).read()
a="    for i in 0..len.saturating_sub(1) {"; assert a in s
open(p,'w').write(s.replace(a,"    for i in 0..len - 1 {"))
