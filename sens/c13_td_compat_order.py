p='/repo/datasketches/src/tdigest/sketch.rs'; s=open(p).read()
a="""                    let weight = cursor.read_f32_be().map_err(make_error("weight"))? as u64;
                    let mean = cursor.read_f32_be().map_err(make_error("mean"))? as f64;"""; assert a in s
open(p,'w').write(s.replace(a,"""                    let mean = cursor.read_f32_be().map_err(make_error("mean"))? as f64;
                    let weight = cursor.read_f32_be().map_err(make_error("weight"))? as u64;"""))
