p='/repo/datasketches/src/bloom/sketch.rs'; s=open(p).read()
a="        (hash >> 1) % self.capacity()"; assert a in s
open(p,'w').write(s.replace(a,"        hash % self.capacity()"))
