p='/repo/datasketches/src/theta/sketch.rs'; s=open(p).read()
a="        bits.div_ceil(8) as u8\n"; assert a in s
open(p,'w').write(s.replace(a,"        (bits.div_ceil(8) as u8).max(2)\n"))
