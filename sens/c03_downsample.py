p='/repo/datasketches/src/hll/union.rs'; s=open(p).read()
a="""            let dst_slot = (src_slot as u32 & dst_mask) as usize;
            let current = dst.values()[dst_slot];"""; assert a in s
open(p,'w').write(s.replace(a,"""            let dst_slot = ((src_slot as u32 >> 1) & dst_mask) as usize;
            let current = dst.values()[dst_slot];"""))
