p='/repo/datasketches/src/hll/aux_map.rs'; s=open(p).read()
a="        if (RESIZE_DENOMINATOR * self.count) > (RESIZE_NUMERATOR * size) {"; assert a in s
open(p,'w').write(s.replace(a,"        if (RESIZE_DENOMINATOR * self.count) > (RESIZE_NUMERATOR * size) + 8 {"))
