p='/repo/datasketches/src/theta/sketch.rs'; s=open(p).read()
a="""        cursor.read_u8().map_err(insufficient_data("<unused>"))?;
        cursor
            .read_u32_le()
            .map_err(insufficient_data("<unused_u32_0>"))?;
        let num_entries = cursor"""; assert a in s
open(p,'w').write(s.replace(a,"""        cursor.read_u8().map_err(insufficient_data("<unused>"))?;
        let num_entries = cursor"""))
