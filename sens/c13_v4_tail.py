p='/repo/datasketches/src/theta/sketch.rs'; s=open(p).read()
a="            let bytes_needed = (rem * entry_bits as usize).div_ceil(8);"; assert a in s
s=s.replace(a,"            let bytes_needed = (rem * entry_bits as usize).div_ceil(8);\n            let rem = if rem == 7 { 6 } else { rem };")
a="            for slot in entries.iter_mut().take(num_entries).skip(i) {"; assert a in s
s=s.replace(a,"            for slot in entries.iter_mut().take(i + rem).skip(i) {")
open(p,'w').write(s)
