p='/repo/datasketches/src/cpc/sketch.rs'; s=open(p).read()
assert s.count("bytes.write_f64_le(self.kxp);\n        bytes.write_f64_le(self.hip_est_accum);")==1
s=s.replace("bytes.write_f64_le(self.kxp);\n        bytes.write_f64_le(self.hip_est_accum);","bytes.write_f64_le(self.kxp);\n        bytes.write_f64_le(self.hip_est_accum * (1.0 + f64::EPSILON));")
open(p,'w').write(s)
