p='/repo/datasketches/src/tdigest/sketch.rs'; s=open(p).read()
a="        q * (1. - q) / normalizer"; assert a in s
open(p,'w').write(s.replace(a,"        q.max(0.02) / normalizer"))
