p='/repo/datasketches/src/cpc/union.rs'; s=open(p).read()
a="""                or_matrix_into_matrix(&mut new_matrix, new_lg_k, matrix, self.lg_k);
                self.lg_k = new_lg_k;"""; assert a in s
open(p,'w').write(s.replace(a,"""                or_matrix_into_matrix(&mut new_matrix, new_lg_k, matrix, self.lg_k);"""))
