p='/repo/datasketches/src/countmin/sketch.rs'; s=open(p).read()
a="        self.total_weight = self.total_weight.add(other.total_weight);\n"; assert a in s
open(p,'w').write(s.replace(a,""))
