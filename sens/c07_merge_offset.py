p='/repo/datasketches/src/frequencies/sketch.rs'; s=open(p).read()
a="        self.offset += other.offset;\n"; assert a in s
open(p,'w').write(s.replace(a,""))
