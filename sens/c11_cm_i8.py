p='/repo/datasketches/src/countmin/value.rs'; s=open(p).read()
a="""                let value = self as i64;
                value.to_le_bytes()"""; assert a in s
open(p,'w').write(s.replace(a,"""                let value = if size_of::<$name>() == 1 { (self as u8) as i64 } else { self as i64 };
                value.to_le_bytes()"""))
