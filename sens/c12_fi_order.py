p='/repo/datasketches/src/frequencies/sketch.rs'; s=open(p).read()
a="""        bytes.write_u64_le(self.stream_weight);
        bytes.write_u64_le(self.offset);"""; assert a in s
s=s.replace(a,"""        bytes.write_u64_le(self.offset);
        bytes.write_u64_le(self.stream_weight);""")
a="""        let stream_weight = cursor
            .read_u64_le()
            .map_err(insufficient_data("stream_weight"))?;
        let offset_val = cursor.read_u64_le().map_err(insufficient_data("offset"))?;"""; assert a in s
s=s.replace(a,"""        let offset_val = cursor.read_u64_le().map_err(insufficient_data("offset"))?;
        let stream_weight = cursor
            .read_u64_le()
            .map_err(insufficient_data("stream_weight"))?;""")
open(p,'w').write(s)
