p='/repo/datasketches/src/cpc/sketch.rs'; s=open(p).read()
a="            if c8post >= (27 + w8pre) * k {"; assert a in s
open(p,'w').write(s.replace(a,"            if c8post >= (27 + w8pre) * k + 8 {"))
