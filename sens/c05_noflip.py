p='/repo/datasketches/src/cpc/sketch.rs'; s=open(p).read()
a="            pattern ^= mask_for_flipping_early_zone;\n            all_surprises_ored |= pattern; // a cheap way"; assert a in s
open(p,'w').write(s.replace(a,"            all_surprises_ored |= pattern; // a cheap way"))
