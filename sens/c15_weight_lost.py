p='/repo/datasketches/src/tdigest/sketch.rs'; s=open(p).read()
a="        self.do_merge(tmp, self.buffer.len() as u64 + other.total_weight())"; assert a in s
open(p,'w').write(s.replace(a,"        self.do_merge(tmp, self.buffer.len() as u64 + other.centroids_weight)"))
