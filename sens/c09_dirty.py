p='/repo/datasketches/src/bloom/sketch.rs'; s=open(p).read()
a="            if raw_num_bits_set == DIRTY_BITS_VALUE {"; assert a in s
open(p,'w').write(s.replace(a,"            if raw_num_bits_set == DIRTY_BITS_VALUE - 1 {"))
