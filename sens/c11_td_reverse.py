p='/repo/datasketches/src/tdigest/sketch.rs'; s=open(p).read()
a="        let reverse_merge = (flags & FLAGS_REVERSE_MERGE) != 0;"; assert a in s
open(p,'w').write(s.replace(a,"        let reverse_merge = (flags & FLAGS_REVERSE_MERGE) == 0;"))
