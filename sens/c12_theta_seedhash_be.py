p='/repo/datasketches/src/theta/sketch.rs'; s=open(p).read()
assert s.count("bytes.write_u16_le(self.seed_hash);")==2
s=s.replace("bytes.write_u16_le(self.seed_hash);","bytes.write_u16_be(self.seed_hash);")
s=s.replace("""        let seed_hash = cursor
            .read_u16_le()
            .map_err(insufficient_data("seed_hash"))?;""","""        let seed_hash = cursor
            .read_u16_be()
            .map_err(insufficient_data("seed_hash"))?;""")
open(p,'w').write(s)
