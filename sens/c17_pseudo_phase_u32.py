p='/repo/datasketches/src/cpc/compression.rs'; s=open(p).read()
a="""    let k = 1u64 << lg_k;
    let num_coupons = num_coupons as u64;"""; assert a in s
open(p,'w').write(s.replace(a,"    let k = 1u32 << lg_k;"))
