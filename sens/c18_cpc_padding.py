p='/repo/datasketches/src/cpc/compression.rs'; s=open(p).read()
a="    let bits = 12 * k + 11;"; assert a in s
s=s.replace(a,"    let bits = 12 * k + 11;")
a="        self.window_data_words = data_words;"; assert a in s
s=s.replace(a,"        self.window_data_words = self.window_data.len();")
open(p,'w').write(s)
