p='/repo/datasketches/src/cpc/compression.rs'; s=open(p).read()
a="                col = (col + 56 - offset) & 63;"; assert a in s
s=s.replace(a,"                col = (col + 57 - offset) & 63; if col >= 56 { col = 0; }")
a="                col = (col + (offset + 8)) & 63;"; assert a in s
s=s.replace(a,"                col = (col + (offset + 7)) & 63;")
open(p,'w').write(s)
