p='/repo/datasketches/src/bloom/builder.rs'; s=open(p).read()
a="        let k = (m / n * std::f64::consts::LN_2).ceil();"; assert a in s
open(p,'w').write(s.replace(a,"        let k = (m / n * std::f64::consts::LN_2 / 4.0).ceil();"))
