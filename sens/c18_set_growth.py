p='/repo/datasketches/src/hll/sketch.rs'; s=open(p).read()
a="                    self.mode = if set.container().lg_size() == self.lg_config_k as usize - 3 {"; assert a in s
open(p,'w').write(s.replace(a,"                    self.mode = if set.container().lg_size() == self.lg_config_k as usize - 2 {"))
