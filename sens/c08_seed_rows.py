p='/repo/datasketches/src/countmin/sketch.rs'; s=open(p).read()
a="        hasher.write(&u64::from(i).to_le_bytes());"; assert a in s
open(p,'w').write(s.replace(a,"        hasher.write(&u64::from(i / 2).to_le_bytes());"))
