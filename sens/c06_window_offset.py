p='/repo/datasketches/src/cpc/union.rs'; s=open(p).read()
a="dst_matrix[src_row & dst_mask] |= (src_window[src_row] as u64) << src_offset;"; assert a in s
open(p,'w').write(s.replace(a,"dst_matrix[src_row & dst_mask] |= src_window[src_row] as u64;"))
