p='/repo/datasketches/src/countmin/sketch.rs'; s=open(p).read()
a="""            let bucket = self.bucket_index(&item, *seed);
            let index = row * num_buckets + bucket;
            self.counts[index] = self.counts[index].add(weight);"""; assert a in s
open(p,'w').write(s.replace(a,"""            let bucket = self.bucket_index(&item, *seed);
            let index = (row * num_buckets + bucket + (row & 1)) % self.counts.len();
            self.counts[index] = self.counts[index].add(weight);"""))
