p='/repo/datasketches/src/hll/union.rs'; s=open(p).read()
a="if self.gadget.is_empty() && src_lg_k == dst_lg_k {"; assert a in s
open(p,'w').write(s.replace(a,"if self.gadget.is_empty() && src_lg_k <= dst_lg_k {"))
