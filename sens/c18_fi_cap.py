p='/repo/datasketches/src/frequencies/sketch.rs'; s=open(p).read()
a="        if self.hash_map.num_active() > self.cur_map_cap {"; assert a in s
open(p,'w').write(s.replace(a,"        if self.hash_map.num_active() > self.cur_map_cap + 1 {"))
