p='/repo/datasketches/src/tdigest/sketch.rs'; s=open(p).read()
a="""fn centroid_upper_bound(c: &Centroid, value: f64) -> Ordering {
    if c.mean > value {"""; assert a in s
open(p,'w').write(s.replace(a,"""fn centroid_upper_bound(c: &Centroid, value: f64) -> Ordering {
    if c.mean >= value {"""))
