p='/repo/datasketches/src/frequencies/sketch.rs'; s=open(p).read()
a="                self.offset += delta;"; assert a in s
open(p,'w').write(s.replace(a,"                self.offset += delta.saturating_sub(1);"))
