p='/repo/datasketches/src/tdigest/sketch.rs'; s=open(p).read()
a='cursor.read_u32_le().map_err(insufficient_data("weight"))? as u64,'; assert a in s
open(p,'w').write(s.replace(a,'cursor.read_u32_le().map_err(insufficient_data("weight"))? as u16 as u64,'))
