p='/repo/datasketches/src/hll/array4.rs'; s=open(p).read()
a="if new_shifted < AUX_TOKEN {"; assert a in s
open(p,'w').write(s.replace(a,"if new_shifted < AUX_TOKEN - 1 {"))
