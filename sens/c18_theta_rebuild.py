p='/repo/datasketches/src/theta/hash_table.rs'; s=open(p).read()
a="const REBUILD_THRESHOLD: f64 = 15.0 / 16.0;"; assert a in s
open(p,'w').write(s.replace(a,"const REBUILD_THRESHOLD: f64 = 31.0 / 32.0;"))
