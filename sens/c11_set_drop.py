p='/repo/datasketches/src/hll/hash_set.rs'; s=open(p).read()
a="            for coupon in coupons_vec.iter().copied() {\n                bytes.write_u32_le(coupon);"; assert a in s
open(p,'w').write(s.replace(a,"            let last = coupons_vec.len().saturating_sub(1);\n            for (i, coupon) in coupons_vec.iter().copied().enumerate() {\n                let coupon = if i == last && last > 20 { coupons_vec[0] } else { coupon };\n                bytes.write_u32_le(coupon);"))
