p='/repo/datasketches/src/hll/list.rs'; s=open(p).read()
a="        let num_stored = if compact { coupon_count } else { array_size };"; assert a in s
open(p,'w').write(s.replace(a,"        let num_stored = coupon_count.min(array_size); let _ = compact;"))
