p='/repo/datasketches/src/countmin/sketch.rs'; s=open(p).read()
a="        estimate.saturating_add(error)"; assert a in s
open(p,'w').write(s.replace(a,"        estimate.add(error)"))
