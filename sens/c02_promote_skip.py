p='/repo/datasketches/src/hll/sketch.rs'; s=open(p).read()
a="""    let mut set = HashSet::default();
    for coupon in container.iter() {"""; assert a in s
open(p,'w').write(s.replace(a,"""    let mut set = HashSet::default();
    for coupon in container.iter().skip(1) {"""))
