p='/repo/datasketches/src/frequencies/sketch.rs'; s=open(p).read()
a="        self.hash_map.get(item) + self.offset\n    }"; assert a in s
open(p,'w').write(s.replace(a,"        self.hash_map.get(item) + self.offset / 2\n    }"))
