p='/repo/datasketches/src/bloom/sketch.rs'; s=open(p).read()
a="        let mut hasher = XxHash64::with_seed(h0);"; assert a in s
open(p,'w').write(s.replace(a,"        let mut hasher = XxHash64::with_seed(h0 ^ self.seed);"))
