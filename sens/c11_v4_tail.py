p='/repo/datasketches/src/theta/sketch.rs'; s=open(p).read()
a="                packer.pack_value(delta, entry_bits);"; assert a in s
s=s.replace(a,"                packer.pack_value(delta & ((1u64 << (entry_bits - 1)) - 1) | (delta >> 1 & (1u64 << (entry_bits - 1))), entry_bits);")
open(p,'w').write(s)
