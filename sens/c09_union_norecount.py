p='/repo/datasketches/src/bloom/sketch.rs'; s=open(p).read()
a="""            *word |= *other_word;
            num_bits_set += word.count_ones() as u64;
        }
        self.num_bits_set = num_bits_set;"""; assert a in s
open(p,'w').write(s.replace(a,"""            *word |= *other_word;
            num_bits_set += word.count_ones() as u64;
        }
        self.num_bits_set = self.num_bits_set.max(other.num_bits_set).max(num_bits_set.min(1));"""))
