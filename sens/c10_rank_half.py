p='/repo/datasketches/src/tdigest/sketch.rs'; s=open(p).read()
a="        weight_below += self.centroids[lower].weight() / 2.;"; assert a in s
open(p,'w').write(s.replace(a,"        weight_below += self.centroids[lower].weight();"))
