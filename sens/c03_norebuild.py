p='/repo/datasketches/src/hll/array8.rs'; s=open(p).read()
a="""            self.bytes[i] = self.bytes[i].max(val);
        }

        self.rebuild_cached_values();"""; assert a in s
open(p,'w').write(s.replace(a,"""            self.bytes[i] = self.bytes[i].max(val);
        }
"""))
