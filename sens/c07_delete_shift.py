p='/repo/datasketches/src/frequencies/reverse_purge_item_hash_map.rs'; s=open(p).read()
a="            if self.states[probe] as usize > drift {"; assert a in s
open(p,'w').write(s.replace(a,"            if self.states[probe] as usize > drift + 1 {"))
