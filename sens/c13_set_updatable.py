p='/repo/datasketches/src/hll/hash_set.rs'; s=open(p).read()
a="                    coupon_count,\n                ),"; assert a in s
open(p,'w').write(s.replace(a,"                    coupon_count.saturating_sub(1),\n                ),"))
