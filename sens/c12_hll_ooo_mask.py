p='/repo/datasketches/src/hll/serialization.rs'; s=open(p).read()
a="pub const OUT_OF_ORDER_FLAG_MASK: u8 = 16;"; assert a in s
open(p,'w').write(s.replace(a,"pub const OUT_OF_ORDER_FLAG_MASK: u8 = 32;"))
