p='/repo/datasketches/src/tdigest/sketch.rs'; s=open(p).read()
a="            if (current != 1) && (current != (len - 1)) {"; assert a in s
open(p,'w').write(s.replace(a,"            if current != 1 {"))
