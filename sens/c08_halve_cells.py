p='/repo/datasketches/src/countmin/sketch.rs'; s=open(p).read()
a="""        for c in &mut self.counts {
            *c = c.halve()
        }"""; assert a in s
open(p,'w').write(s.replace(a,"""        for c in self.counts.iter_mut().skip(1) {
            *c = c.halve().halve()
        }"""))
