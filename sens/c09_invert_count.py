p='/repo/datasketches/src/bloom/sketch.rs'; s=open(p).read()
a="        self.num_bits_set = self.capacity() as u64 - self.num_bits_set;"; assert a in s
open(p,'w').write(s.replace(a,"        self.num_bits_set = self.bit_array.len() as u64 * 63 - self.num_bits_set.min(self.bit_array.len() as u64 * 63);"))
