//! Allocator seam: a counting / capping wrapper around the system allocator.
//!
//! While a thread-local *scope* is open (opened by the harness around one library call) the
//! wrapper records the largest single request and the peak of net live bytes requested inside
//! the scope. A single request above the hard cap is refused (null), which makes Rust abort;
//! that is only survivable because fault-injection scenarios run in supervised child processes.

use std::alloc::{GlobalAlloc, Layout, System};
use std::cell::Cell;

pub struct Tracking;

thread_local! {
    static ACTIVE: Cell<bool> = const { Cell::new(false) };
    static MAX_REQ: Cell<usize> = const { Cell::new(0) };
    static NET: Cell<isize> = const { Cell::new(0) };
    static PEAK: Cell<isize> = const { Cell::new(0) };
    static LABEL: Cell<&'static str> = const { Cell::new("") };
}

/// Name of the library call about to run on this thread (printed if the hard cap refuses a request).
pub fn set_label(l: &'static str) {
    LABEL.with(|c| c.set(l));
}

/// Hard cap for one request while a scope is open.
pub const HARD_CAP: usize = 1 << 30;

#[inline]
fn on_alloc(size: usize) -> bool {
    // returns false if the request must be refused
    let mut ok = true;
    let _ = ACTIVE.try_with(|a| {
        if a.get() {
            MAX_REQ.with(|m| {
                if size > m.get() {
                    m.set(size)
                }
            });
            NET.with(|n| {
                let v = n.get() + size as isize;
                n.set(v);
                PEAK.with(|p| {
                    if v > p.get() {
                        p.set(v)
                    }
                });
            });
            if size > HARD_CAP {
                ok = false;
            }
        }
    });
    ok
}

#[inline]
fn on_free(size: usize) {
    let _ = ACTIVE.try_with(|a| {
        if a.get() {
            NET.with(|n| n.set(n.get() - size as isize));
        }
    });
}

fn report_refusal(size: usize) {
    // async-signal-safe style: format into a stack buffer and write(2) to stderr
    let mut buf = [0u8; 160];
    let prefix = b"VERIF-ALLOC-CAP size=";
    let mut n = 0;
    for &b in prefix {
        buf[n] = b;
        n += 1;
    }
    let mut digits = [0u8; 24];
    let mut d = 0;
    let mut v = size;
    if v == 0 {
        digits[0] = b'0';
        d = 1;
    }
    while v > 0 {
        digits[d] = b'0' + (v % 10) as u8;
        v /= 10;
        d += 1;
    }
    while d > 0 {
        d -= 1;
        buf[n] = digits[d];
        n += 1;
    }
    for &b in b" label=" {
        buf[n] = b;
        n += 1;
    }
    let label = LABEL.try_with(|c| c.get()).unwrap_or("");
    for &b in label.as_bytes().iter().take(60) {
        buf[n] = b;
        n += 1;
    }
    buf[n] = b'\n';
    n += 1;
    unsafe {
        libc::write(2, buf.as_ptr() as *const libc::c_void, n);
    }
}

unsafe impl GlobalAlloc for Tracking {
    unsafe fn alloc(&self, layout: Layout) -> *mut u8 {
        if !on_alloc(layout.size()) {
            report_refusal(layout.size());
            return std::ptr::null_mut();
        }
        unsafe { System.alloc(layout) }
    }
    unsafe fn alloc_zeroed(&self, layout: Layout) -> *mut u8 {
        if !on_alloc(layout.size()) {
            report_refusal(layout.size());
            return std::ptr::null_mut();
        }
        unsafe { System.alloc_zeroed(layout) }
    }
    unsafe fn dealloc(&self, ptr: *mut u8, layout: Layout) {
        on_free(layout.size());
        unsafe { System.dealloc(ptr, layout) }
    }
    unsafe fn realloc(&self, ptr: *mut u8, layout: Layout, new_size: usize) -> *mut u8 {
        if new_size > layout.size() {
            if !on_alloc(new_size - layout.size()) {
                report_refusal(new_size);
                return std::ptr::null_mut();
            }
            // a realloc to a huge size is also one big request
            let _ = ACTIVE.try_with(|a| {
                if a.get() {
                    MAX_REQ.with(|m| {
                        if new_size > m.get() {
                            m.set(new_size)
                        }
                    });
                }
            });
            if ACTIVE.try_with(|a| a.get()).unwrap_or(false) && new_size > HARD_CAP {
                report_refusal(new_size);
                return std::ptr::null_mut();
            }
        } else {
            on_free(layout.size() - new_size);
        }
        unsafe { System.realloc(ptr, layout, new_size) }
    }
}

#[derive(Debug, Clone, Copy, Default)]
pub struct ScopeReport {
    pub max_request: usize,
    pub peak_net: usize,
    /// net live bytes still held when the scope closed (≈ retained size of the returned value)
    pub retained: usize,
}

/// Run `f` with allocation accounting on for this thread.
pub fn scoped<R>(f: impl FnOnce() -> R) -> (R, ScopeReport) {
    MAX_REQ.with(|m| m.set(0));
    NET.with(|n| n.set(0));
    PEAK.with(|p| p.set(0));
    ACTIVE.with(|a| a.set(true));
    struct Guard;
    impl Drop for Guard {
        fn drop(&mut self) {
            ACTIVE.with(|a| a.set(false));
        }
    }
    let g = Guard;
    let r = f();
    drop(g);
    let rep = ScopeReport {
        max_request: MAX_REQ.with(|m| m.get()),
        peak_net: PEAK.with(|p| p.get()).max(0) as usize,
        retained: NET.with(|n| n.get()).max(0) as usize,
    };
    (r, rep)
}
