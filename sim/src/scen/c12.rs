//! C12 — emitted bytes follow the DataSketches cross-language binary layout.
//!
//! System: a Writer node (real library) builds a sketch of some family through a PRNG-drawn
//! history (updates, unions / merges, purges, trims) and puts `serialize()` images on the wire; a
//! ForeignReader stub — the independent `speccodec` decoder, which accepts exactly what the
//! Java/C++ readers accept — taps every image and compares the decoded abstract state with the
//! Writer's reference model. No fault kind bears on this property; the simulator contributes the
//! stub peer and the population of states.

use crate::check;
use crate::core::{RunStats, Scenario, Tier, Violation, lib_call};
use crate::model::cpc::CpcModel;
use crate::model::hll::{HllModel, kxq_sum};
use crate::refhash;
use crate::rng::Rng;
use crate::scen::c02::gen_coupons;
use crate::scen::c05::gen_row_cols;
use crate::scen::c07::Sk as FiSk;
use crate::scen::c08::{Cm, CmModel, type_max};
use crate::scen::c09::BloomModel;
use crate::speccodec as sc;
use datasketches::bloom::BloomFilterBuilder;
use datasketches::cpc::{CpcSketch, CpcUnion};
use datasketches::hll::{HllSketch, HllType, HllUnion};
use datasketches::tdigest::TDigestMut;
use datasketches::theta::ThetaSketch;
use serde::{Deserialize, Serialize};
use std::collections::BTreeMap;

pub struct C12;

#[derive(Clone, Serialize, Deserialize)]
pub struct Cfg {
    pub fam: String,
    pub a: u64,
    pub b: u64,
    pub seed: u64,
}

#[derive(Clone, Serialize, Deserialize)]
#[serde(tag = "k")]
pub enum Act {
    /// offer pre-hashed inputs: HLL coupons, CPC row_cols, theta hashes
    Raw { vals: Vec<u64> },
    /// offer items through the public update path (u64 items; weight for CM / FI)
    Items { vals: Vec<u64>, w: u64 },
    /// values for the t-digest
    Values { bits: Vec<u64> },
    /// pass the sketch through a union / merge with a second sketch built from `vals`
    Merge { vals: Vec<u64>, b: u64 },
    /// CPC: column-major fill of `cols` columns, every row, skipping ~1/64 of the cells
    /// (a compact action so that large-lg_k spot runs keep a small replay file)
    Fill { cols: u8, seed: u64 },
    /// theta: trim(); FI: nothing; others: nothing
    Trim,
    /// emit the image (variant: theta ordered/compressed, HLL result type) and check it
    Emit { var: u8 },
}

const FAMS: &[&str] = &["hll", "cpc", "theta", "bloom", "cm", "fi", "td"];

fn ty(t: u64) -> HllType {
    match t % 3 {
        0 => HllType::Hll4,
        1 => HllType::Hll6,
        _ => HllType::Hll8,
    }
}

fn fail(inv: &str, detail: String) -> Violation {
    Violation::new(format!("C12.{inv}"), detail)
}

pub fn check_hll_image(sk: &HllSketch, model_coupons: Option<&std::collections::BTreeSet<u32>>, model_regs: Option<&[u8]>, st: &mut RunStats) -> Result<(), Violation> {
    let s = sk.verif_state();
    let img = lib_call("HllSketch::serialize", || sk.serialize())?;
    st.lib_calls += 1;
    st.observe(&img);
    let d = sc::hll::decode(&img).map_err(|e| fail("hll_rejected", format!("a Java/C++ reader would reject / misread this HLL image (lg_k {}, type {}, mode {}): {e}", s.lg_config_k, s.tgt_type, s.cur_mode)))?;
    check!(d.lg_k == s.lg_config_k && d.tgt == s.tgt_type && d.mode == s.cur_mode, "C12.hll_header", "header says lg_k {} type {} mode {}; sketch is lg_k {} type {} mode {}", d.lg_k, d.tgt, d.mode, s.lg_config_k, s.tgt_type, s.cur_mode);
    check!(d.implied_len == img.len(), "C12.hll_length", "image has {} bytes, header implies {}", img.len(), d.implied_len);
    if d.mode < 2 {
        let mut got = d.coupons.clone();
        got.sort_unstable();
        let want: Vec<u32> = match model_coupons {
            Some(m) => m.iter().copied().collect(),
            None => {
                let mut v = s.coupons.clone();
                v.sort_unstable();
                v
            }
        };
        check!(got == want, "C12.hll_coupons", "decoded {} coupons, model has {}", got.len(), want.len());
        check!(d.empty_flag == want.is_empty(), "C12.hll_empty_flag", "empty flag {} with {} coupons", d.empty_flag, want.len());
        st.probe(if d.mode == 0 { "hll_list_image" } else { "hll_set_image" });
    } else {
        let want: Vec<u8> = model_regs.map(|r| r.to_vec()).unwrap_or_else(|| s.registers.clone());
        if d.registers != want {
            let p = d.registers.iter().zip(&want).position(|(a, b)| a != b);
            return Err(fail("hll_registers", format!("decoded registers differ from the model at slot {p:?}")));
        }
        let min = *want.iter().min().unwrap();
        if d.tgt == 0 {
            check!(d.cur_min == min, "C12.hll_cur_min", "curMin byte {} but min register {min}", d.cur_min);
            let n = want.iter().filter(|&&v| v == min).count() as u32;
            check!(d.num_at_cur_min == n, "C12.hll_num_at_cur_min", "numAtCurMin {} want {n}", d.num_at_cur_min);
            let mut aux = d.aux.clone();
            aux.sort_unstable();
            let wa: Vec<(u32, u8)> = want.iter().enumerate().filter(|(_, v)| **v - min >= 15).map(|(i, v)| (i as u32, *v)).collect();
            check!(aux == wa, "C12.hll_aux", "aux pairs {:?}.. want {:?}..", &aux[..aux.len().min(4)], &wa[..wa.len().min(4)]);
            if !wa.is_empty() {
                st.probe("hll4_image_with_aux");
            }
        } else {
            let z = want.iter().filter(|&&v| v == 0).count() as u32;
            check!(d.num_at_cur_min == z, "C12.hll_num_zeros", "numAtCurMin {} want {z} zeros", d.num_at_cur_min);
        }
        let kx = kxq_sum(&want);
        check!(((d.kxq0 + d.kxq1) - kx).abs() <= 1e-9 * kx, "C12.hll_kxq", "kxq0+kxq1 = {} want {kx}", d.kxq0 + d.kxq1);
        check!(d.ooo_flag == s.out_of_order, "C12.hll_ooo_flag", "OOO flag {} but sketch out_of_order {}", d.ooo_flag, s.out_of_order);
        check!(d.hip.to_bits() == s.hip_accum.to_bits(), "C12.hll_hip", "hipAccum field {} vs {}", d.hip, s.hip_accum);
        st.probe(match d.tgt { 0 => "hll4_array_image", 1 => "hll6_array_image", _ => "hll8_array_image" });
    }
    Ok(())
}

pub fn check_cpc_image(sk: &CpcSketch, model: &CpcModel, st: &mut RunStats) -> Result<(), Violation> {
    check_cpc_image_seeded(sk, model, 9001, st)
}

pub fn check_cpc_image_seeded(sk: &CpcSketch, model: &CpcModel, seed: u64, st: &mut RunStats) -> Result<(), Violation> {
    let f = sk.verif_fields();
    let img = lib_call("CpcSketch::serialize", || sk.serialize())?;
    st.lib_calls += 1;
    st.observe(&img);
    let d = sc::cpc::decode(&img).map_err(|e| fail("cpc_rejected", format!("a Java/C++ reader would reject / misread this CPC image (lg_k {}, C {}): {e}", f.lg_k, f.num_coupons)))?;
    check!(d.lg_k == model.lg_k && d.num_coupons as u64 == model.count, "C12.cpc_header", "header lg_k {} C {}; model lg_k {} C {}", d.lg_k, d.num_coupons, model.lg_k, model.count);
    check!(d.seed_hash == refhash::seed_hash(seed), "C12.cpc_seed_hash", "seed hash {:#x} want {:#x} (update seed {seed})", d.seed_hash, refhash::seed_hash(seed));
    check!(d.fic == f.first_interesting_column, "C12.cpc_fic", "firstInterestingColumn byte {} vs {}", d.fic, f.first_interesting_column);
    check!(d.implied_len == img.len(), "C12.cpc_length", "image has {} bytes, header implies {}", img.len(), d.implied_len);
    if model.count > 0 {
        check!(d.has_hip == !f.merge_flag, "C12.cpc_hip_flag", "HAS_HIP {} but merge_flag {}", d.has_hip, f.merge_flag);
        if d.has_hip {
            check!(d.kxp.to_bits() == f.kxp.to_bits() && d.hip_accum.to_bits() == f.hip_est_accum.to_bits(), "C12.cpc_hip_fields", "kxp/hip fields {} / {} vs {} / {}", d.kxp, d.hip_accum, f.kxp, f.hip_est_accum);
        }
    }
    if d.matrix != model.m {
        let p = d.matrix.iter().zip(&model.m).position(|(a, b)| a != b);
        return Err(fail("cpc_matrix", format!("matrix decoded from the image differs from the model at row {p:?} (C {}, flavor {:?}, offset {})", model.count, crate::model::cpc::flavor(model.lg_k, model.count), crate::model::cpc::window_offset(model.lg_k, model.count))));
    }
    st.probe(match crate::model::cpc::flavor(model.lg_k, model.count) {
        crate::model::cpc::Flavor::Empty => "cpc_empty_image",
        crate::model::cpc::Flavor::Sparse => "cpc_sparse_image",
        crate::model::cpc::Flavor::Hybrid => "cpc_hybrid_image",
        crate::model::cpc::Flavor::Pinned => "cpc_pinned_image",
        crate::model::cpc::Flavor::Sliding => "cpc_sliding_image",
    });
    Ok(())
}

pub fn check_theta_image(sk: &ThetaSketch, seed: u64, var: u8, st: &mut RunStats) -> Result<(), Violation> {
    let ordered = var & 1 != 0;
    let compressed = var & 2 != 0;
    let c = lib_call("ThetaSketch::compact", || sk.compact(ordered))?;
    let img = lib_call("CompactThetaSketch::serialize*", || if compressed { c.serialize_compressed() } else { c.serialize() })?;
    st.lib_calls += 2;
    st.observe(&img);
    let d = sc::theta::decode(&img).map_err(|e| fail("theta_rejected", format!("a Java/C++ reader would reject / misread this theta image ({} entries, theta {:#x}): {e}", c.num_retained(), c.theta64())))?;
    let want: Vec<u64> = c.iter().collect();
    check!(d.entries == want, "C12.theta_entries", "decoded {} entries, compact sketch holds {}", d.entries.len(), want.len());
    // the abstract state the writer is known to hold (from the mutable sketch)
    let mut truth: Vec<u64> = sk.iter().collect();
    truth.sort_unstable();
    let mut got = d.entries.clone();
    got.sort_unstable();
    check!(got == truth, "C12.theta_entries", "decoded entry set differs from the sketch's retained hashes");
    let exp_theta = if truth.is_empty() { sc::theta::MAX_THETA } else { sk.theta64() };
    check!(d.theta == exp_theta, "C12.theta_theta", "theta {:#x} want {exp_theta:#x}", d.theta);
    check!(d.empty == truth.is_empty(), "C12.theta_empty", "empty {} with {} entries", d.empty, truth.len());
    check!(d.seed_hash == refhash::seed_hash(seed), "C12.theta_seed_hash", "seed hash {:#x} want {:#x}", d.seed_hash, refhash::seed_hash(seed));
    check!(d.implied_len == img.len(), "C12.theta_length", "image has {} bytes, header implies {}", img.len(), d.implied_len);
    if d.ser_ver == 4 {
        // minimal widths, as the Java/C++ writers choose them
        let mut prev = 0u64;
        let mut ored = 0u64;
        for &e in &d.entries {
            ored |= e - prev;
            prev = e;
        }
        let bits = (64 - ored.leading_zeros()) as u8;
        check!(d.entry_bits == bits, "C12.theta_entry_bits", "entryBits {} but the deltas need {bits}", d.entry_bits);
        let n = d.entries.len() as u32;
        let nb = (32 - n.leading_zeros()).div_ceil(8) as u8;
        check!(d.num_entries_bytes == nb, "C12.theta_count_bytes", "numEntriesBytes {} for {n} entries (want {nb})", d.num_entries_bytes);
        st.probe("theta_v4_image");
        if d.entries.len() % 8 != 0 {
            st.probe("theta_v4_tail_block");
        }
    } else {
        st.probe(match d.pre_longs { 1 => "theta_v3_pre1_image", 2 => "theta_v3_exact_image", _ => "theta_v3_estimating_image" });
    }
    Ok(())
}

impl Scenario for C12 {
    type Cfg = Cfg;
    type Act = Act;
    fn name(&self) -> &'static str {
        "c12_layout"
    }
    fn runs(&self, tier: Tier) -> u64 {
        match tier {
            Tier::Quick => 20_000,
            Tier::Thorough => 1_500_000,
        }
    }
    fn generate(&self, rng: &mut Rng, tier: Tier) -> (Cfg, Vec<Act>) {
        let fam = *rng.pick(FAMS);
        let big = tier == Tier::Thorough;
        let (a, b) = match fam {
            "hll" => (match rng.below(12) { 0 => 4, 1 if big => 16, _ => rng.range(4, 12) }, rng.below(3)),
            "cpc" => (match rng.below(10) { 0 => 4, _ => rng.range(4, if big { 13 } else { 11 }) }, 0),
            "theta" => (rng.range(5, 10), rng.below(16)),
            "bloom" => (rng.range(1, 3000), rng.range(1, 9)),
            "cm" => (rng.range(1, 6), rng.range(3, 60)),
            "fi" => (rng.range(3, 8), rng.below(3)),
            _ => (*rng.pick(&[10u64, 25, 100, 200]), 0),
        };
        let seed = if matches!(fam, "theta" | "bloom" | "cm" | "cpc") && rng.chance(1, 2) { rng.next_u64() } else { 9001 };
        let mut cfg = Cfg { fam: fam.to_string(), a, b, seed };
        let mut acts = vec![];
        if fam == "cpc" && rng.chance(1, 250) {
            // spot run at a large lg_k: k-scaled thresholds computed in 32 bits would overflow here
            cfg.a = *rng.pick(&[19u64, 20, 21, 21]);
            acts.push(Act::Fill { cols: rng.range(1, 6) as u8, seed: rng.next_u64() });
            acts.push(Act::Emit { var: 0 });
            return (cfg, acts);
        }
        if fam == "cpc" && rng.chance(1, 60) {
            // spot run: a sparse sketch whose coupons all sit in the highest columns (each pair takes the
            // longest column code), serialized after every coupon: buffer sizing of the pair coder
            cfg.a = rng.range(8, 14);
            let col = *rng.pick(&[63u64, 63, 62, 56, 40]);
            for _ in 0..rng.range(8, 70) {
                acts.push(Act::Raw { vals: vec![(rng.next_u64() << 6) | col] });
                acts.push(Act::Emit { var: 0 });
            }
            return (cfg, acts);
        }
        if fam == "theta" && rng.chance(1, 120) {
            // spot run with more than 65535 retained entries: the compressed form then needs a
            // three-byte entry count (nominal size 2^16 or 2^17, exact mode up to 2k entries)
            cfg.a = *rng.pick(&[16u64, 17]);
            acts.push(Act::Fill { cols: rng.range(0, 3) as u8, seed: rng.next_u64() });
            acts.push(Act::Emit { var: 1 });
            acts.push(Act::Emit { var: 3 });
            return (cfg, acts);
        }
        let steps = 2 + rng.usize_below(8);
        for _ in 0..steps {
            let n = match rng.below(5) {
                0 => rng.usize_below(9),
                1 => rng.usize_below(60),
                _ => rng.usize_below(if fam == "hll" || fam == "cpc" || fam == "theta" { (8usize << a.min(12)).min(if big { 40_000 } else { 6_000 }) } else { 800 }),
            };
            match (fam, rng.below(10)) {
                ("hll", 0..=5) => acts.push(Act::Raw { vals: gen_coupons(rng, a as u8, n.max(1)).into_iter().map(|c| c as u64).collect() }),
                ("cpc", 0..=5) => acts.push(Act::Raw { vals: gen_row_cols(rng, a as u8, n.max(1), true).into_iter().map(|c| c as u64).collect() }),
                ("theta", 0..=2) => {
                    // crafted hashes: clusters with small deltas, huge deltas, values near 2^63
                    let base = rng.next_u64() >> rng.range(1, 40);
                    let width = rng.range(1, 62);
                    acts.push(Act::Raw { vals: (0..n).map(|_| (base.wrapping_add(rng.next_u64() >> (64 - width))) & (i64::MAX as u64)).collect() });
                }
                ("td", 0..=6) => acts.push(Act::Values { bits: (0..n).map(|i| crate::scen::c10::gen_value(rng, (cfg.seed % 10) as u8, i as u64, n as u64, 1.0).to_bits()).collect() }),
                (_, 6) => acts.push(Act::Merge { vals: (0..n.min(3000)).map(|_| if rng.chance(1, 3) { rng.below(50) } else { rng.next_u64() }).collect(), b: rng.next_u64() }),
                (_, 7) => acts.push(Act::Trim),
                (_, 8 | 9) => acts.push(Act::Emit { var: rng.next_u32() as u8 }),
                _ => acts.push(Act::Items { vals: (0..n).map(|_| if rng.chance(1, 3) { rng.below(40) } else { rng.next_u64() }).collect(), w: 1 + rng.below(4) }),
            }
        }
        acts.push(Act::Emit { var: rng.next_u32() as u8 });
        (cfg, acts)
    }

    fn execute(&self, cfg: &Cfg, acts: &[Act], st: &mut RunStats) -> Result<(), Violation> {
        st.shape_seq(refhash::xxh64(cfg.fam.as_bytes(), 0) % 1000);
        st.shape_seq(cfg.a.min(64));
        for a in acts {
            st.shape_seq(match a {
                Act::Raw { vals } => 10 + (usize::BITS - vals.len().leading_zeros()) as u64 / 3,
                Act::Items { vals, .. } => 20 + (usize::BITS - vals.len().leading_zeros()) as u64 / 3,
                Act::Values { bits } => 30 + (usize::BITS - bits.len().leading_zeros()) as u64 / 3,
                Act::Merge { .. } => 40,
                Act::Fill { .. } => 41,
                Act::Trim => 42,
                Act::Emit { .. } => 43,
            });
        }
        match cfg.fam.as_str() {
            "hll" => {
                let lg_k = (cfg.a as u8).clamp(4, 21);
                let mut sk = HllSketch::new(lg_k, ty(cfg.b));
                let mut model = HllModel::new(lg_k);
                // once the sketch went through a union the abstract state is (coupons | registers)
                let mut via_union: Option<Vec<u8>> = None;
                for a in acts {
                    st.ticks += 1;
                    match a {
                        Act::Raw { vals } if via_union.is_none() => {
                            for &v in vals {
                                let c = ((v as u32 >> 26).clamp(1, 63) << 26) | (v as u32 & 0x3ff_ffff);
                                lib_call("verif_update_with_coupon", || sk.verif_update_with_coupon(c))?;
                                model.offer(c);
                            }
                        }
                        Act::Items { vals, .. } if via_union.is_none() => {
                            for &v in vals {
                                lib_call("HllSketch::update", || sk.update(v))?;
                                model.offer(crate::scen::c02::item_coupon(v));
                            }
                        }
                        Act::Merge { vals, b } if via_union.is_none() => {
                            let lg2 = (4 + b % 9) as u8;
                            let mut other = HllSketch::new(lg2, ty(b >> 8));
                            for &v in vals {
                                other.update(v);
                            }
                            let mut u = HllUnion::new(lg_k.max(4));
                            lib_call("HllUnion::update", || {
                                u.update(&sk);
                                u.update(&other);
                            })?;
                            sk = lib_call("HllUnion::to_sketch", || u.to_sketch(ty(b >> 16)))?;
                            let s = sk.verif_state();
                            // state after a union is C03's subject; here the image must match the sketch
                            via_union = Some(s.registers.clone());
                            st.fault("hll_union_result");
                        }
                        Act::Emit { .. } => {
                            if via_union.is_some() {
                                check_hll_image(&sk, None, None, st)?;
                            } else {
                                let regs = model.registers();
                                check_hll_image(&sk, Some(&model.coupons), Some(&regs), st)?;
                            }
                            st.nontrivial = true;
                        }
                        _ => {}
                    }
                }
            }
            "cpc" => {
                let lg_k = (cfg.a as u8).clamp(4, 22);
                let seed = if refhash::seed_hash(cfg.seed) == 0 { 9001 } else { cfg.seed };
                let mut sk = CpcSketch::with_seed(lg_k, seed);
                let mut model = CpcModel::new(lg_k);
                for a in acts {
                    st.ticks += 1;
                    match a {
                        Act::Raw { vals } => {
                            for &v in vals {
                                let rc = v as u32 & (((1u32 << model.lg_k) - 1) << 6 | 63);
                                if rc == u32::MAX {
                                    continue;
                                }
                                lib_call("verif_row_col_update", || sk.verif_row_col_update(rc))?;
                                model.offer(rc);
                            }
                        }
                        Act::Fill { cols, seed } => {
                            let k = 1u32 << model.lg_k;
                            st.probe("cpc_large_fill");
                            let cols = (*cols as u32).min(40);
                            let skip = |row: u32, c: u32| (row.wrapping_mul(2654435761) ^ c.wrapping_mul(40503) ^ (*seed as u32)) % 64 == 0;
                            // rows in a scattered order (an odd multiplier is a bijection mod 2^lg_k):
                            // sequential rows would be the worst case of the sketch's linear-probing table
                            lib_call("verif_row_col_update (fill)", || {
                                for c in 0..cols {
                                    for i in 0..k {
                                        let row = i.wrapping_mul(0x9E37_79B1) & (k - 1);
                                        if !skip(row, c) {
                                            sk.verif_row_col_update((row << 6) | c);
                                        }
                                    }
                                }
                            })?;
                            for c in 0..cols {
                                for row in 0..k {
                                    if !skip(row, c) {
                                        model.offer((row << 6) | c);
                                    }
                                }
                            }
                        }
                        Act::Items { vals, .. } => {
                            for &v in vals {
                                lib_call("CpcSketch::update", || sk.update(v))?;
                                model.offer(crate::scen::c05::item_row_col(v, model.lg_k, 9001));
                            }
                        }
                        Act::Merge { vals, b } => {
                            let lg2 = (4 + b % 8) as u8;
                            let mut other = CpcSketch::with_seed(lg2, seed);
                            let mut om = CpcModel::new(lg2);
                            for &v in vals {
                                other.update(v);
                                om.offer(crate::scen::c05::item_row_col(v, lg2, seed));
                            }
                            // the union starts at its own (possibly larger) lg_k and is reduced by its inputs
                            let union_lg = (model.lg_k + (b >> 8) as u8 % 3).min(26);
                            let mut u = CpcUnion::with_seed(union_lg, seed);
                            lib_call("CpcUnion::update", || {
                                u.update(&sk);
                                u.update(&other);
                            })?;
                            sk = lib_call("CpcUnion::to_sketch", || u.to_sketch())?;
                            // model of the union result (C06's oracle)
                            let mut lg = union_lg;
                            if model.count > 0 {
                                lg = lg.min(model.lg_k);
                            }
                            if om.count > 0 {
                                lg = lg.min(lg2);
                            }
                            let mut m = if model.count > 0 { crate::model::cpc::fold_matrix(&model.m, lg) } else { vec![0u64; 1usize << lg] };
                            if om.count > 0 {
                                for (x, y) in m.iter_mut().zip(crate::model::cpc::fold_matrix(&om.m, lg)) {
                                    *x |= y;
                                }
                            }
                            let count = m.iter().map(|w| w.count_ones() as u64).sum();
                            model = CpcModel { lg_k: lg, m, count };
                            st.fault("cpc_union_result");
                        }
                        Act::Emit { .. } => {
                            check_cpc_image_seeded(&sk, &model, seed, st)?;
                            st.nontrivial = true;
                        }
                        _ => {}
                    }
                }
            }
            "theta" => {
                if refhash::seed_hash(cfg.seed) == 0 {
                    return Ok(());
                }
                let rf = match cfg.b % 4 {
                    0 => datasketches::common::ResizeFactor::X1,
                    1 => datasketches::common::ResizeFactor::X2,
                    2 => datasketches::common::ResizeFactor::X4,
                    _ => datasketches::common::ResizeFactor::X8,
                };
                let mut sk = ThetaSketch::builder().lg_k((cfg.a as u8).clamp(5, 17)).resize_factor(rf).sampling_probability([1.0f32, 1.0, 0.3, 0.01][(cfg.b / 4 % 4) as usize]).seed(cfg.seed).build();
                for a in acts {
                    st.ticks += 1;
                    match a {
                        Act::Raw { vals } => {
                            for &v in vals {
                                lib_call("verif_insert_hash", || sk.verif_insert_hash(v & (i64::MAX as u64)))?;
                            }
                        }
                        Act::Items { vals, .. } | Act::Merge { vals, .. } => {
                            for &v in vals {
                                lib_call("ThetaSketch::update", || sk.update(v))?;
                            }
                        }
                        Act::Fill { cols, seed } => {
                            // 66k .. 128k pseudo-random hashes (one call: the panic site is what matters)
                            let n = 66_000 + (*cols as u64 % 4) * 15_000 + seed % 15_000;
                            let mut r = Rng::new(*seed);
                            lib_call("verif_insert_hash x n", || {
                                for _ in 0..n {
                                    sk.verif_insert_hash(r.next_u64() & (i64::MAX as u64));
                                }
                            })?;
                            st.probe("theta_more_than_65535_entries");
                        }
                        Act::Trim => {
                            lib_call("ThetaSketch::trim", || sk.trim())?;
                            st.fault("theta_trim");
                        }
                        Act::Emit { var } => {
                            check_theta_image(&sk, cfg.seed, *var, st)?;
                            check_theta_image(&sk, cfg.seed, *var ^ 2, st)?;
                            st.nontrivial = true;
                        }
                        _ => {}
                    }
                }
            }
            "bloom" => {
                let (bits, hashes) = (cfg.a.clamp(1, 1 << 18), (cfg.b as u16).clamp(1, 64));
                let mut f = BloomFilterBuilder::with_size(bits, hashes).seed(cfg.seed).build();
                let mut model = BloomModel::new(bits, hashes, cfg.seed);
                for a in acts {
                    st.ticks += 1;
                    match a {
                        Act::Items { vals, .. } | Act::Raw { vals } => {
                            for &v in vals {
                                lib_call("BloomFilter::insert", || f.insert(v))?;
                                model.insert(v);
                            }
                        }
                        Act::Merge { vals, .. } => {
                            let mut o = BloomFilterBuilder::with_size(bits, hashes).seed(cfg.seed).build();
                            let mut om = BloomModel::new(bits, hashes, cfg.seed);
                            for &v in vals {
                                o.insert(v);
                                om.insert(v);
                            }
                            lib_call("BloomFilter::union", || f.union(&o))?;
                            for (x, y) in model.words.iter_mut().zip(&om.words) {
                                *x |= *y;
                            }
                        }
                        Act::Trim => {
                            lib_call("BloomFilter::invert", || f.invert())?;
                            for w in model.words.iter_mut() {
                                *w = !*w;
                            }
                        }
                        Act::Emit { .. } => {
                            let img = lib_call("BloomFilter::serialize", || f.serialize())?;
                            st.observe(&img);
                            let d = sc::simple::bloom_decode(&img).map_err(|e| fail("bloom_rejected", format!("a Java/C++ reader would reject this Bloom image: {e}")))?;
                            check!(d.num_hashes == hashes && d.seed == cfg.seed && d.num_longs as usize == model.words.len(), "C12.bloom_header", "header {} hashes, seed {}, {} longs; filter has {} / {} / {}", d.num_hashes, d.seed, d.num_longs, hashes, cfg.seed, model.words.len());
                            let pc = model.popcount();
                            check!(d.empty == (pc == 0), "C12.bloom_empty", "empty flag {} with {pc} bits set", d.empty);
                            check!(!d.dirty && d.bits_used == pc, "C12.bloom_bits_used", "numBitsSet {} (dirty {}) want {pc}", d.bits_used, d.dirty);
                            if pc > 0 {
                                check!(d.words == model.words, "C12.bloom_words", "bit array in the image differs from the reference positions");
                            }
                            check!(d.implied_len == img.len(), "C12.bloom_length", "image {} bytes, header implies {}", img.len(), d.implied_len);
                            st.nontrivial = true;
                        }
                        _ => {}
                    }
                }
            }
            "cm" => {
                if refhash::seed_hash(cfg.seed) == 0 {
                    return Ok(());
                }
                let t = (cfg.seed % 8) as u8;
                let (h, bk) = ((cfg.a as u8).clamp(1, 8), (cfg.b as u32).clamp(3, 512));
                let mut sk = Cm::new(t, h, bk, cfg.seed);
                let mut model = CmModel::new(h, bk, cfg.seed);
                let max = type_max(t);
                for a in acts {
                    st.ticks += 1;
                    match a {
                        Act::Items { vals, w } | Act::Merge { vals, b: w } => {
                            for &v in vals {
                                let w = 1 + w % 3;
                                if model.total + w > max {
                                    break;
                                }
                                lib_call("update_with_weight", || sk.update(v, w))?;
                                model.update(v, w);
                            }
                        }
                        Act::Emit { .. } => {
                            let img = lib_call("CountMinSketch::serialize", || sk.serialize())?;
                            st.observe(&img);
                            let d = sc::simple::cm_decode(&img).map_err(|e| fail("cm_rejected", format!("a Java/C++ reader would reject this Count-Min image: {e}")))?;
                            check!(d.num_buckets == bk && d.num_hashes == h && d.seed_hash == refhash::seed_hash(cfg.seed), "C12.cm_header", "header {}x{} seed hash {:#x}; sketch {h}x{bk} seed hash {:#x}", d.num_hashes, d.num_buckets, d.seed_hash, refhash::seed_hash(cfg.seed));
                            check!(d.empty == (model.total == 0), "C12.cm_empty", "empty flag {} with total {}", d.empty, model.total);
                            if model.total > 0 {
                                check!(d.total == model.total && d.table == model.table, "C12.cm_table", "total / table in the image differ from the model (total {} vs {})", d.total, model.total);
                            }
                            check!(d.implied_len == img.len(), "C12.cm_length", "image {} bytes, header implies {}", img.len(), d.implied_len);
                            st.nontrivial = true;
                        }
                        _ => {}
                    }
                }
            }
            "fi" => {
                let kind = (cfg.b % 3) as u8;
                let lg = (cfg.a as u8).clamp(3, 10);
                let mut sk = FiSk::new(kind, lg);
                let mut total = 0u64;
                let mut offered: BTreeMap<u32, u64> = BTreeMap::new();
                for a in acts {
                    st.ticks += 1;
                    match a {
                        Act::Items { .. } | Act::Raw { .. } => {
                            let (vals, w) = match a {
                                Act::Items { vals, w } => (vals, *w),
                                Act::Raw { vals } => (vals, 1),
                                _ => unreachable!(),
                            };
                            for &v in vals {
                                let id = (v % 600) as u32;
                                lib_call("update_with_count", || sk.update(id, w))?;
                                total += w;
                                *offered.entry(id).or_insert(0) += w;
                            }
                        }
                        Act::Merge { vals, b } => {
                            let mut o = FiSk::new(kind, (3 + b % 6) as u8);
                            for &v in vals {
                                let id = (v % 600) as u32;
                                o.update(id, 1);
                                total += 1;
                                *offered.entry(id).or_insert(0) += 1;
                            }
                            lib_call("FrequentItemsSketch::merge", || sk.merge(&o))?;
                        }
                        Act::Emit { .. } => {
                            let img = lib_call("FrequentItemsSketch::serialize", || sk.serialize())?;
                            st.observe(&img);
                            let d = sc::simple::fi_decode(&img, kind == 2).map_err(|e| fail("fi_rejected", format!("a Java/C++ reader would reject this Frequent Items image ({} bytes: {}): {e}", img.len(), crate::item::hex(&img[..img.len().min(24)]))))?;
                            check!(d.empty == (total == 0), "C12.fi_empty", "empty flag {} with stream weight {total}", d.empty);
                            check!(d.implied_len == img.len(), "C12.fi_length", "image {} bytes, header implies {}", img.len(), d.implied_len);
                            if total > 0 {
                                check!(d.stream_weight == total, "C12.fi_weight", "streamWeight {} want {total}", d.stream_weight);
                                check!(d.offset == sk.maximum_error(), "C12.fi_offset", "offset {} vs maximum_error {}", d.offset, sk.maximum_error());
                                check!(d.counts.len() == sk.num_active(), "C12.fi_active", "activeItems {} vs {}", d.counts.len(), sk.num_active());
                                // every (item, count) pair in the image is a tracked item with that lower bound
                                let mut seen = std::collections::BTreeSet::new();
                                for (it, c) in d.items.iter().zip(&d.counts) {
                                    let id = offered.keys().copied().find(|id| match (it, kind) {
                                        (sc::simple::FiItem::Long(v), 0) => *v == crate::scen::c07::item_i64(*id) as u64,
                                        (sc::simple::FiItem::Long(v), 1) => *v == crate::scen::c07::item_u64(*id),
                                        (sc::simple::FiItem::Str(s), _) => s == crate::scen::c07::item_str(*id).as_bytes(),
                                        _ => false,
                                    });
                                    let Some(id) = id else { return Err(fail("fi_items", "image contains an item that was never offered".into())) };
                                    check!(seen.insert(id), "C12.fi_items", "item {id} appears twice in the image");
                                    let (lb, _, _) = sk.bounds(id);
                                    check!(*c == lb && lb > 0, "C12.fi_counts", "item {id}: count {c} in the image, lower_bound {lb}");
                                }
                            }
                            check!(d.lg_max == lg.max(3), "C12.fi_header", "lgMaxMapSize {} want {lg}", d.lg_max);
                            st.probe(if d.empty { "fi_empty_image" } else if d.counts.is_empty() { "fi_no_counters_image" } else { "fi_regular_image" });
                            st.nontrivial = true;
                        }
                        _ => {}
                    }
                }
            }
            _ => {
                let k = (cfg.a as u16).clamp(10, 1000);
                let mut d = TDigestMut::new(k);
                let mut data: Vec<f64> = vec![];
                for a in acts {
                    st.ticks += 1;
                    match a {
                        Act::Values { bits } => {
                            for &b in bits {
                                let v = f64::from_bits(b);
                                lib_call("TDigestMut::update", || d.update(v))?;
                                if v.is_finite() {
                                    data.push(v);
                                }
                            }
                        }
                        Act::Items { vals, .. } => {
                            for &v in vals {
                                let x = (v % 1000) as f64 * 0.5;
                                lib_call("TDigestMut::update", || d.update(x))?;
                                data.push(x);
                            }
                        }
                        Act::Merge { vals, b } => {
                            let mut o = TDigestMut::new((10 + b % 200) as u16);
                            for &v in vals {
                                let x = (v % 5000) as f64 - 2000.0;
                                o.update(x);
                                data.push(x);
                            }
                            lib_call("TDigestMut::merge", || d.merge(&o))?;
                        }
                        Act::Emit { .. } => {
                            let img = lib_call("TDigestMut::serialize", || d.serialize())?;
                            st.observe(&img);
                            let im = sc::td::decode(&img, false).map_err(|e| fail("td_rejected", format!("a Java/C++ reader would reject this t-digest image: {e}")))?;
                            check!(im.k == k, "C12.td_k", "k {} want {k}", im.k);
                            check!(im.empty == data.is_empty() && im.single == (data.len() == 1), "C12.td_flags", "empty {} single {} with {} values", im.empty, im.single, data.len());
                            check!(im.implied_len == img.len(), "C12.td_length", "image {} bytes, header implies {}", img.len(), im.implied_len);
                            if !data.is_empty() {
                                let mn = data.iter().cloned().fold(f64::INFINITY, f64::min);
                                let mx = data.iter().cloned().fold(f64::NEG_INFINITY, f64::max);
                                check!(im.min == mn && im.max == mx, "C12.td_min_max", "min/max {} / {} want {mn} / {mx}", im.min, im.max);
                                let w: u64 = im.centroids.iter().map(|c| c.1).sum::<u64>() + im.buffered.len() as u64;
                                check!(w == data.len() as u64, "C12.td_weight", "centroid weights sum to {w}, {} values offered", data.len());
                                check!(im.centroids.windows(2).all(|p| p[0].0 <= p[1].0), "C12.td_order", "centroid means not sorted in the image");
                                check!(im.centroids.iter().all(|c| c.1 > 0 && c.0 >= mn && c.0 <= mx), "C12.td_centroids", "centroid with zero weight or mean outside [min,max]");
                            }
                            st.probe(if im.empty { "td_empty_image" } else if im.single { "td_single_image" } else { "td_regular_image" });
                            st.nontrivial = true;
                        }
                        _ => {}
                    }
                }
            }
        }
        Ok(())
    }

    fn shrink_action(&self, a: &Act) -> Vec<Act> {
        let halve = |v: &Vec<u64>| -> Vec<Vec<u64>> {
            if v.len() <= 1 { vec![] } else { vec![v[..v.len() / 2].to_vec(), v[v.len() / 2..].to_vec()] }
        };
        match a {
            Act::Raw { vals } => halve(vals).into_iter().map(|v| Act::Raw { vals: v }).collect(),
            Act::Items { vals, w } => halve(vals).into_iter().map(|v| Act::Items { vals: v, w: *w }).collect(),
            Act::Values { bits } => halve(bits).into_iter().map(|v| Act::Values { bits: v }).collect(),
            Act::Merge { vals, b } => halve(vals).into_iter().map(|v| Act::Merge { vals: v, b: *b }).collect(),
            _ => vec![],
        }
    }
}
