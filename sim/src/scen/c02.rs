//! C02 — an HLL sketch holds exactly the per-slot maximum of every item it was fed.
//!
//! System: one Source, six Worker replicas of one lg_k. Group A = {Hll4, Hll6, Hll8} on one
//! totally ordered channel (identical sequence, duplicates included); group B = {Hll4, Hll6, Hll8}
//! each on its own at-least-once channel with independent reordering, duplication and
//! loss/retransmit. Oracle: the textbook model built from exactly what was delivered.

use crate::check;
use crate::core::{RunStats, Scenario, Tier, Violation, lib_call};
use crate::model::hll::{HllModel, kxq_sum};
use crate::rng::Rng;
use crate::speccodec::hll as codec;
use datasketches::common::NumStdDev;
use datasketches::hll::{HllSketch, HllType};
use serde::{Deserialize, Serialize};

pub struct C02;

#[derive(Clone, Serialize, Deserialize)]
pub struct Cfg {
    pub lg_k: u8,
}

#[derive(Clone, Serialize, Deserialize)]
#[serde(tag = "k")]
pub enum Act {
    /// the Source emits a coupon: appended to the ordered channel of group A (delivered at once)
    /// and put in flight towards each group-B replica
    Emit { c: u32 },
    /// same, but the item is hashed by the library (`update`) instead of injected as a coupon
    EmitItem { v: u64 },
    /// an item (u128) constructed so that its MurmurHash3 digest is exactly (h1, h2): hash words no
    /// random item has - all zeros, single bits, 63 / 64 leading zeros
    EmitKey { h1: u64, h2: u64 },
    /// group A's channel re-delivers an earlier message (to all three, same position)
    DupA { pick: u32 },
    /// deliver one in-flight message to group-B replica `r`; `keep` = the ack is lost, the
    /// sender will retransmit it later (duplicate delivery)
    DeliverB { r: u8, pick: u32, keep: bool },
    /// the transmission is lost; the message stays with the sender
    DropB { r: u8, pick: u32 },
    /// deep check of every replica (state dump + image decoded by the foreign reader)
    Check,
}

const TYPES: [HllType; 3] = [HllType::Hll4, HllType::Hll6, HllType::Hll8];
const STDS: [NumStdDev; 3] = [NumStdDev::One, NumStdDev::Two, NumStdDev::Three];

pub fn item_coupon(v: u64) -> u32 {
    crate::scen::c16::hll_coupon_ref(&v.to_le_bytes())
}

thread_local! {
    /// prescribed-hash keys of the run in progress (side table: in-flight messages carry an index)
    static KEYS: std::cell::RefCell<Vec<u128>> = const { std::cell::RefCell::new(Vec::new()) };
}

struct Replica {
    sk: HllSketch,
    model: HllModel,
    inflight: Vec<u32>, // coupons not yet acked (group B)
    last_mode: u8,
}

fn deep_check(name: &str, rp: &Replica, st: &mut RunStats) -> Result<(), Violation> {
    let s = lib_call("verif_state", || rp.sk.verif_state())?;
    let img = lib_call("HllSketch::serialize", || rp.sk.serialize())?;
    st.lib_calls += 2;
    st.observe(&img);
    let dec = match codec::decode(&img) {
        Ok(d) => Some(d),
        Err(e) => {
            // a layout problem is C12's business; here the hook view alone decides
            st.probe("image_rejected_by_foreign_reader");
            let _ = e;
            None
        }
    };
    let lg_k = rp.model.lg_k;
    check!(s.lg_config_k == lg_k, "C02.lg_k", "{name}: lg_config_k {} want {lg_k}", s.lg_config_k);
    if s.cur_mode < 2 {
        let mut got: Vec<u32> = s.coupons.clone();
        got.sort_unstable();
        let want: Vec<u32> = rp.model.coupons.iter().copied().collect();
        check!(got == want, "C02.coupon_set", "{name} (mode {}): holds {} coupons, model has {} distinct; first difference {:?}", s.cur_mode, got.len(), want.len(), first_diff(&got, &want));
        if let Some(d) = &dec {
            let mut g2 = d.coupons.clone();
            g2.sort_unstable();
            check!(d.mode == s.cur_mode && g2 == want, "C02.coupon_set_image", "{name}: image (mode {}) decodes to {} coupons, model has {}", d.mode, g2.len(), want.len());
        }
        check!(rp.sk.estimate() >= want.len() as f64, "C02.sparse_estimate", "{name}: estimate {} below the {} distinct coupons held", rp.sk.estimate(), want.len());
    } else {
        let want = rp.model.registers();
        check!(s.registers == want, "C02.registers", "{name}: register mismatch at slot {:?}", first_diff(&s.registers, &want));
        let min = *want.iter().min().unwrap();
        if s.tgt_type == 0 {
            check!(s.cur_min == min, "C02.cur_min", "{name}: cur_min {} but min register is {min}", s.cur_min);
            let n = want.iter().filter(|&&v| v == min).count() as u32;
            check!(s.num_at_cur_min == n, "C02.num_at_cur_min", "{name}: num_at_cur_min {} want {n}", s.num_at_cur_min);
            let mut aux: Vec<(u32, u8)> = s.aux.clone();
            aux.sort_unstable();
            let wa: Vec<(u32, u8)> = want.iter().enumerate().filter(|(_, v)| **v - min >= 15).map(|(i, v)| (i as u32, *v)).collect();
            check!(aux == wa, "C02.aux_map", "{name}: aux map {:?} want {:?}", &aux[..aux.len().min(6)], &wa[..wa.len().min(6)]);
            if !wa.is_empty() {
                st.probe("hll4_live_aux_map");
            }
            if min > 0 {
                st.probe("hll4_cur_min_shifted");
                if !wa.is_empty() {
                    st.probe("hll4_cur_min_shift_with_live_aux");
                }
            }
        } else {
            let z = want.iter().filter(|&&v| v == 0).count() as u32;
            check!(s.num_at_cur_min == z, "C02.num_zeros", "{name}: num_zeros {} want {z}", s.num_at_cur_min);
        }
        let kx = kxq_sum(&want);
        let got = s.kxq0 + s.kxq1;
        check!((got - kx).abs() <= 1e-9 * kx.abs().max(1e-300), "C02.kxq", "{name}: kxq0+kxq1 = {got} want {kx}");
        if let Some(d) = &dec {
            check!(d.mode == 2 && d.registers == want, "C02.registers_image", "{name}: registers decoded from serialize() differ from the model at slot {:?}", first_diff(&d.registers, &want));
        }
        if want.iter().any(|&v| v >= 32) {
            st.probe("register_value_ge_32");
        }
    }
    Ok(())
}

fn first_diff<T: PartialEq + std::fmt::Debug + Copy>(a: &[T], b: &[T]) -> Option<(usize, Option<T>, Option<T>)> {
    let n = a.len().max(b.len());
    for i in 0..n {
        if a.get(i) != b.get(i) {
            return Some((i, a.get(i).copied(), b.get(i).copied()));
        }
    }
    None
}

/// Coupon stream generators (the workload shapes named in DESIGN.md C02).
pub fn gen_coupons(rng: &mut Rng, lg_k: u8, max: usize) -> Vec<u32> {
    let k = 1u32 << lg_k;
    let mut out: Vec<u32> = vec![];
    let cp = |slot: u32, v: u32| -> u32 { (v.clamp(1, 63) << 26) | (slot & 0x3ff_ffff) };
    match rng.below(9) {
        0 => {
            // uniform slots (full 26 bits), geometric values
            let n = rng.usize_below(max) + 1;
            for _ in 0..n {
                out.push(cp(rng.next_u32(), 1 + rng.geometric(62)));
            }
        }
        1 => {
            // few hot slots
            let hot: Vec<u32> = (0..1 + rng.below(6)).map(|_| rng.next_u32() & 0x3ff_ffff).collect();
            let n = rng.usize_below(max.min(400)) + 1;
            for _ in 0..n {
                out.push(cp(*rng.pick(&hot), 1 + rng.below(63) as u32));
            }
        }
        2 | 3 => {
            // staircase: every slot raised to v, then v+1, ... forces Hll4 cur_min shifts;
            // variant 3 sprinkles values >= cur_min + 15 (live aux map during a shift)
            let steps = 1 + rng.below(if lg_k <= 8 { 20 } else { 4 }) as u32;
            let sprinkle = rng.chance(1, 2);
            let mut order: Vec<u32> = (0..k).collect();
            'outer: for v in 1..=steps {
                rng.shuffle(&mut order);
                for &s in &order {
                    if out.len() >= max {
                        break 'outer;
                    }
                    out.push(cp(s | (rng.next_u32() & 0x3ff_ffff & !(k - 1)), v));
                    if sprinkle && rng.chance(1, 24) {
                        out.push(cp(rng.below(k as u64) as u32, v + 15 + rng.below(30) as u32));
                    }
                }
            }
        }
        4 => {
            // exact repeats and values up to 63
            let n = rng.usize_below(max.min(300)) + 1;
            for _ in 0..n {
                let c = cp(rng.below(k as u64 * 2) as u32, *rng.pick(&[1u32, 2, 14, 15, 16, 17, 31, 32, 33, 62, 63]));
                out.push(c);
                if rng.chance(1, 2) {
                    out.push(c);
                }
            }
        }
        5 => {
            // same register, different 26-bit coupon (matters while sparse)
            let n = rng.usize_below(60) + 1;
            let base = rng.below(k as u64) as u32;
            for i in 0..n as u32 {
                out.push(cp(base | (i << lg_k), 1 + rng.below(5) as u32));
            }
        }
        6 => {
            // burst sized to sit exactly on a promotion threshold
            let thr = [7usize, 8, 9, 24, 25, 26, 3 * (k as usize) / 32, 3 * (k as usize) / 32 + 1, 3 * (k as usize) / 32 + 2];
            let n = (*rng.pick(&thr)).min(max).max(1);
            for i in 0..n as u32 {
                out.push(cp(i.wrapping_mul(2654435761), 1 + rng.geometric(20)));
            }
        }
        7 => {
            // dense fill then a few large values
            let n = max.min(4 * k as usize);
            for _ in 0..n {
                out.push(cp(rng.next_u32(), 1 + rng.geometric(30)));
            }
            for _ in 0..rng.below(20) {
                out.push(cp(rng.next_u32(), 40 + rng.below(24) as u32));
            }
        }
        _ => {
            // descending values: every later coupon for a slot is smaller (no-op updates)
            let n = rng.usize_below(max.min(500)) + 1;
            for i in 0..n as u32 {
                out.push(cp(i % k.min(64), 63 - (i / k.min(64)).min(62)));
            }
        }
    }
    out.truncate(max);
    out
}

impl Scenario for C02 {
    type Cfg = Cfg;
    type Act = Act;
    fn name(&self) -> &'static str {
        "c02_hll_replicas"
    }
    fn runs(&self, tier: Tier) -> u64 {
        match tier {
            Tier::Quick => 6_000,
            Tier::Thorough => 400_000,
        }
    }
    fn generate(&self, rng: &mut Rng, tier: Tier) -> (Cfg, Vec<Act>) {
        let lg_k = match (tier, rng.below(40)) {
            (Tier::Thorough, 0) => rng.range(13, 16) as u8,
            (_, 1) => 4,
            (_, 2) => 12,
            // large configurations: the coupon set lives through several table doublings (up to
            // 3/4 of 2^(lg_k-3) coupons) before the register array is allocated
            (_, 3) => rng.range(17, 21) as u8,
            _ => rng.range(4, 12) as u8,
        };
        let k = 1usize << lg_k;
        let max = if lg_k >= 17 {
            let promote = 3 * (k >> 3) / 4;
            (promote + promote / 4).min(if tier == Tier::Quick { 30_000 } else { 260_000 }).min(rng.range(2_000, 300_000) as usize)
        } else {
            match rng.below(4) {
                0 => 40,
                1 => k,
                _ => (6 * k).min(if tier == Tier::Quick { 6_000 } else { 60_000 }),
            }
        };
        let mut coupons: Vec<u32> = vec![];
        let many_exceptions = rng.chance(1, 60);
        let lg_k = if many_exceptions { *rng.pick(&[15u8, 16]) } else { lg_k };
        let k = 1usize << lg_k;
        if many_exceptions {
            // Hll4 with thousands of live exceptions (registers >= cur_min + 15): the aux map grows
            // through several doublings (beyond 2^13 entries), then exception slots are raised again
            let mut slots: Vec<u32> = (0..k as u32).collect();
            rng.shuffle(&mut slots);
            for &s in &slots {
                coupons.push((1 << 26) | s);
            }
            let n_exc = k / 4 + rng.usize_below(k / 8);
            for &s in slots.iter().take(n_exc) {
                coupons.push(((20 + rng.below(20) as u32) << 26) | s);
            }
            for _ in 0..2000 {
                let s = slots[rng.usize_below(n_exc)];
                coupons.push(((41 + rng.below(22) as u32) << 26) | s);
            }
        }
        let phases = if many_exceptions { 0 } else { 1 + rng.below(3) };
        for _ in 0..phases {
            let room = max.saturating_sub(coupons.len());
            if room == 0 {
                break;
            }
            coupons.extend(gen_coupons(rng, lg_k, room));
        }
        let hashed = rng.chance(1, 5);
        // network behaviour knobs (swarm)
        let p_deliver = 1 + rng.below(6); // B deliveries per emit on average
        let p_keep = rng.below(4); // out of 8: duplicate-delivery rate
        let p_drop = rng.below(3);
        let p_dup_a = rng.below(3);
        // a deep check costs O(k): keep its frequency in proportion
        let check_every = (*rng.pick(&[1usize, 4, 16, 64, 256])).max(k / 64);
        let mut acts = vec![];
        for (i, &c) in coupons.iter().enumerate() {
            if hashed && rng.chance(1, 8) {
                let word = |rng: &mut Rng| match rng.below(7) {
                    0 => 0,
                    1 => 1,
                    2 => u64::MAX,
                    3 => 1u64 << rng.below(64),
                    4 => rng.below(8),
                    5 => u64::MAX << rng.below(64),
                    _ => rng.next_u64(),
                };
                let (h1, h2) = (word(rng), word(rng));
                acts.push(Act::EmitKey { h1, h2 });
            } else if hashed {
                acts.push(Act::EmitItem { v: c as u64 | (rng.next_u64() << 32) });
            } else {
                acts.push(Act::Emit { c });
            }
            if rng.below(16) < p_dup_a {
                acts.push(Act::DupA { pick: rng.next_u32() });
            }
            for _ in 0..rng.below(p_deliver + 1) {
                let r = rng.below(3) as u8;
                if rng.below(8) < p_drop {
                    acts.push(Act::DropB { r, pick: rng.next_u32() });
                } else {
                    acts.push(Act::DeliverB { r, pick: if rng.chance(1, 3) { 0 } else { rng.next_u32() }, keep: rng.below(8) < p_keep });
                }
            }
            if i % check_every == check_every - 1 {
                acts.push(Act::Check);
            }
        }
        (Cfg { lg_k }, acts)
    }

    fn execute(&self, cfg: &Cfg, acts: &[Act], st: &mut RunStats) -> Result<(), Violation> {
        let lg_k = cfg.lg_k.clamp(4, 21);
        KEYS.with(|k| k.borrow_mut().clear());
        let mk = |t: HllType| Replica { sk: HllSketch::new(lg_k, t), model: HllModel::new(lg_k), inflight: vec![], last_mode: 0 };
        let mut a: Vec<Replica> = TYPES.iter().map(|t| mk(*t)).collect();
        let mut b: Vec<Replica> = TYPES.iter().map(|t| mk(*t)).collect();
        let mut log_a: Vec<(u32, Option<u64>)> = vec![]; // ordered channel history
        let names_a = ["A/Hll4", "A/Hll6", "A/Hll8"];
        let names_b = ["B/Hll4", "B/Hll6", "B/Hll8"];
        let mut b_items: std::collections::BTreeMap<u32, u64> = Default::default();

        fn apply(rp: &mut Replica, c: u32, item: Option<u64>, st: &mut RunStats) -> Result<(), Violation> {
            match item {
                // keys are tagged with the top bit of the side channel: the value is an index into KEYS
                Some(v) if v >> 63 == 1 => {
                    let key = KEYS.with(|k| k.borrow()[(v & 0xffff_ffff) as usize]);
                    lib_call("HllSketch::update(u128 key)", || rp.sk.update(key))?
                }
                Some(v) => lib_call("HllSketch::update", || rp.sk.update(v))?,
                None => lib_call("HllSketch::verif_update_with_coupon", || rp.sk.verif_update_with_coupon(c))?,
            }
            st.lib_calls += 1;
            rp.model.offer(c);
            Ok(())
        }

        for act in acts {
            st.ticks += 1;
            match act {
                Act::Emit { .. } | Act::EmitItem { .. } | Act::EmitKey { .. } | Act::DupA { .. } => {
                    let (c, item) = match act {
                        Act::EmitKey { h1, h2 } => {
                            let bytes = crate::refhash::murmur_preimage16(9001, *h1, *h2);
                            let idx = KEYS.with(|k| {
                                k.borrow_mut().push(u128::from_le_bytes(bytes));
                                k.borrow().len() - 1
                            });
                            st.probe("item_with_prescribed_hash");
                            // the model's coupon comes from the reference derivation over the key's bytes
                            (crate::scen::c16::hll_coupon_ref(&bytes), Some((1u64 << 63) | idx as u64))
                        }
                        Act::Emit { c } => {
                            let v = (*c >> 26).clamp(1, 63);
                            ((v << 26) | (*c & 0x3ff_ffff), None)
                        }
                        Act::EmitItem { v } => (item_coupon(*v & (u64::MAX >> 1)), Some(*v & (u64::MAX >> 1))),
                        Act::DupA { pick } => {
                            if log_a.is_empty() {
                                continue;
                            }
                            st.fault("dup_ordered_channel");
                            log_a[*pick as usize % log_a.len()]
                        }
                        _ => unreachable!(),
                    };
                    if !matches!(act, Act::DupA { .. }) {
                        log_a.push((c, item));
                        for rp in b.iter_mut() {
                            rp.inflight.push(c);
                        }
                        if let Some(v) = item {
                            b_items.insert(c, v);
                        }
                    }
                    for rp in a.iter_mut() {
                        apply(rp, c, item, st)?;
                    }
                    // group A: identical sequence => bit-identical estimates and bounds
                    let e: Vec<f64> = a.iter().map(|r| r.sk.estimate()).collect();
                    st.lib_calls += 3;
                    st.observe_f64(e[2]);
                    check!(e[0].to_bits() == e[2].to_bits() && e[1].to_bits() == e[2].to_bits(), "C02.types_disagree_estimate", "after {} deliveries on the shared channel: estimate Hll4 {} Hll6 {} Hll8 {}", log_a.len(), e[0], e[1], e[2]);
                    for s in STDS {
                        let lb: Vec<f64> = a.iter().map(|r| r.sk.lower_bound(s)).collect();
                        let ub: Vec<f64> = a.iter().map(|r| r.sk.upper_bound(s)).collect();
                        check!(lb[0].to_bits() == lb[2].to_bits() && lb[1].to_bits() == lb[2].to_bits() && ub[0].to_bits() == ub[2].to_bits() && ub[1].to_bits() == ub[2].to_bits(), "C02.types_disagree_bounds", "after {} deliveries: lower bounds {:?} upper bounds {:?} ({:?})", log_a.len(), lb, ub, s);
                        if !(lb[2] <= e[2] && e[2] <= ub[2]) {
                            st.note(format!("C01 side probe (HLL): lb {} est {} ub {} at {:?}, lg_k {lg_k}", lb[2], e[2], ub[2], s));
                        }
                    }
                    // mode transitions trigger a deep check of the replica that moved
                    for (i, rp) in a.iter_mut().enumerate() {
                        let m = rp.model.expected_mode();
                        if m != rp.last_mode {
                            rp.last_mode = m;
                            st.shape_seq(100 + m as u64);
                            deep_check(names_a[i], rp, st)?;
                        }
                    }
                }
                Act::DeliverB { r, pick, keep } => {
                    let i = *r as usize % 3;
                    if b[i].inflight.is_empty() {
                        continue;
                    }
                    let idx = *pick as usize % b[i].inflight.len();
                    if idx != 0 {
                        st.fault("reorder");
                    }
                    let c = b[i].inflight[idx];
                    if *keep {
                        st.fault("duplicate_delivery");
                    } else {
                        b[i].inflight.remove(idx);
                    }
                    let item = b_items.get(&c).copied();
                    apply(&mut b[i], c, item, st)?;
                    st.nontrivial = true;
                }
                Act::DropB { r, .. } => {
                    if !b[*r as usize % 3].inflight.is_empty() {
                        st.fault("loss_then_retransmit");
                    }
                }
                Act::Check => {
                    for (i, rp) in a.iter().enumerate() {
                        deep_check(names_a[i], rp, st)?;
                    }
                    for (i, rp) in b.iter().enumerate() {
                        deep_check(names_b[i], rp, st)?;
                    }
                }
            }
        }
        // quiescence: the at-least-once transport retransmits until everything is acked
        for rp in b.iter_mut() {
            let pending = std::mem::take(&mut rp.inflight);
            for c in pending {
                let item = b_items.get(&c).copied();
                apply(rp, c, item, st)?;
            }
        }
        for (i, rp) in a.iter().enumerate() {
            deep_check(names_a[i], rp, st)?;
        }
        for (i, rp) in b.iter().enumerate() {
            deep_check(names_b[i], rp, st)?;
        }
        // convergence: all six replicas hold the same coupon set / registers
        let sa = a[2].sk.verif_state();
        for (i, rp) in b.iter().enumerate() {
            let sb = rp.sk.verif_state();
            let same = if sa.cur_mode < 2 && sb.cur_mode < 2 {
                let mut x = sa.coupons.clone();
                let mut y = sb.coupons.clone();
                x.sort_unstable();
                y.sort_unstable();
                x == y
            } else if sa.cur_mode == 2 && sb.cur_mode == 2 {
                sa.registers == sb.registers
            } else {
                false
            };
            check!(same, "C02.replicas_diverge", "{} and A/Hll8 were delivered the same set of coupons (different order / multiplicity) but hold different state (modes {} vs {})", names_b[i], sb.cur_mode, sa.cur_mode);
        }
        st.shape_seq(lg_k as u64);
        st.shape_seq(a[2].model.expected_mode() as u64);
        Ok(())
    }

    fn shrink_cfg(&self, c: &Cfg) -> Vec<Cfg> {
        if c.lg_k > 4 { vec![Cfg { lg_k: 4 }, Cfg { lg_k: c.lg_k - 1 }] } else { vec![] }
    }
}
