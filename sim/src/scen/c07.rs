//! C07 — Frequent-items bounds always bracket the true count, across updates and merges.
//!
//! System: 2-6 nodes holding `FrequentItemsSketch<i64|u64|String>` of equal or mixed map sizes;
//! any node takes updates and absorbs other nodes' sketches (so the flush pattern draws a random
//! merge tree / DAG); exactly-once transport (receiver de-duplicates) with reorder, hold and
//! loss-then-retransmit; framed checkpoints (len|image|crc, two generations, harness WAL) with
//! crash / restart at arbitrary points. Oracle: exact frequency map per node.

use crate::check;
use crate::core::{RunStats, Scenario, Tier, Violation, lib_call};
use crate::rng::Rng;
use datasketches::frequencies::{ErrorType, FrequentItemsSketch};
use serde::{Deserialize, Serialize};
use std::collections::{BTreeMap, BTreeSet};

pub struct C07;

#[derive(Clone, Serialize, Deserialize)]
pub struct Cfg {
    /// 0 = i64, 1 = u64, 2 = String
    pub kind: u8,
    /// lg of max_map_size per node
    pub lg_sizes: Vec<u8>,
    pub domain: u32,
}

#[derive(Clone, Serialize, Deserialize)]
#[serde(tag = "k")]
pub enum Act {
    Update { n: u8, item: u32, w: u64 },
    /// wire = false: in-memory merge now; true: serialize and put on the wire
    Flush { from: u8, to: u8, wire: bool },
    Deliver { pick: u32 },
    /// transport-level duplicate of an in-flight message (suppressed by the receiver's de-dup)
    Dup { pick: u32 },
    Drop { pick: u32 },
    Checkpoint { n: u8, sync: bool },
    Crash { n: u8, torn: bool },
    Check { n: u8 },
}

pub fn item_i64(id: u32) -> i64 {
    id as i64 * 7919 - 1000
}
pub fn item_u64(id: u32) -> u64 {
    (id as u64).wrapping_mul(0x9E37_79B9_7F4A_7C15)
}
pub fn item_str(id: u32) -> String {
    // injective: the empty string, non-ASCII and plain variants, all carrying the id
    match id % 5 {
        0 if id == 0 => String::new(),
        1 => format!("ключ-{id}"),
        2 => format!("k{id}\u{1F600}"),
        // embedded NUL, and a string longer than any one-byte or two-byte length prefix could describe
        3 if id % 7 == 3 => format!("nul\0{id}\0"),
        4 if id == 4 => format!("{}-{id}", "long".repeat(17_000)),
        4 if id % 13 == 4 => format!("{}-{id}", "long".repeat(80)),
        _ => format!("item{id}"),
    }
}

pub enum Sk {
    I(FrequentItemsSketch<i64>),
    U(FrequentItemsSketch<u64>),
    S(FrequentItemsSketch<String>),
}

macro_rules! with_sk {
    ($sk:expr, $s:ident => $body:expr) => {
        match $sk {
            Sk::I($s) => $body,
            Sk::U($s) => $body,
            Sk::S($s) => $body,
        }
    };
}

impl Sk {
    pub fn new(kind: u8, lg: u8) -> Sk {
        let m = 1usize << lg;
        match kind % 3 {
            0 => Sk::I(FrequentItemsSketch::new(m)),
            1 => Sk::U(FrequentItemsSketch::new(m)),
            _ => Sk::S(FrequentItemsSketch::new(m)),
        }
    }
    pub fn update(&mut self, id: u32, w: u64) {
        match self {
            Sk::I(s) => s.update_with_count(item_i64(id), w),
            Sk::U(s) => s.update_with_count(item_u64(id), w),
            Sk::S(s) => s.update_with_count(item_str(id), w),
        }
    }
    pub fn merge(&mut self, o: &Sk) {
        match (self, o) {
            (Sk::I(a), Sk::I(b)) => a.merge(b),
            (Sk::U(a), Sk::U(b)) => a.merge(b),
            (Sk::S(a), Sk::S(b)) => a.merge(b),
            _ => {}
        }
    }
    pub fn serialize(&self) -> Vec<u8> {
        with_sk!(self, s => s.serialize())
    }
    pub fn deserialize(kind: u8, b: &[u8]) -> Result<Sk, String> {
        match kind % 3 {
            0 => FrequentItemsSketch::<i64>::deserialize(b).map(Sk::I).map_err(|e| e.to_string()),
            1 => FrequentItemsSketch::<u64>::deserialize(b).map(Sk::U).map_err(|e| e.to_string()),
            _ => FrequentItemsSketch::<String>::deserialize(b).map(Sk::S).map_err(|e| e.to_string()),
        }
    }
    pub fn bounds(&self, id: u32) -> (u64, u64, u64) {
        match self {
            Sk::I(s) => { let x = item_i64(id); (s.lower_bound(&x), s.estimate(&x), s.upper_bound(&x)) }
            Sk::U(s) => { let x = item_u64(id); (s.lower_bound(&x), s.estimate(&x), s.upper_bound(&x)) }
            Sk::S(s) => { let x = item_str(id); (s.lower_bound(&x), s.estimate(&x), s.upper_bound(&x)) }
        }
    }
    pub fn total_weight(&self) -> u64 {
        with_sk!(self, s => s.total_weight())
    }
    pub fn maximum_error(&self) -> u64 {
        with_sk!(self, s => s.maximum_error())
    }
    pub fn num_active(&self) -> usize {
        with_sk!(self, s => s.num_active_items())
    }
    pub fn max_cap(&self) -> usize {
        with_sk!(self, s => s.maximum_map_capacity())
    }
    /// rows of frequent_items as (domain id if recognised, estimate, lb, ub)
    /// frequent_items_with_threshold rows, items mapped back to ids
    pub fn rows_thr(&self, et: ErrorType, domain: u32, thr: u64) -> Vec<(Option<u32>, u64, u64, u64)> {
        match self {
            Sk::I(s) => {
                let inv: BTreeMap<i64, u32> = (0..domain).map(|i| (item_i64(i), i)).collect();
                s.frequent_items_with_threshold(et, thr).iter().map(|r| (inv.get(r.item()).copied(), r.estimate(), r.lower_bound(), r.upper_bound())).collect()
            }
            Sk::U(s) => {
                let inv: BTreeMap<u64, u32> = (0..domain).map(|i| (item_u64(i), i)).collect();
                s.frequent_items_with_threshold(et, thr).iter().map(|r| (inv.get(r.item()).copied(), r.estimate(), r.lower_bound(), r.upper_bound())).collect()
            }
            Sk::S(s) => {
                let inv: BTreeMap<String, u32> = (0..domain).map(|i| (item_str(i), i)).collect();
                s.frequent_items_with_threshold(et, thr).iter().map(|r| (inv.get(r.item()).copied(), r.estimate(), r.lower_bound(), r.upper_bound())).collect()
            }
        }
    }
    pub fn rows(&self, et: ErrorType, domain: u32) -> Vec<(Option<u32>, u64, u64, u64)> {
        match self {
            Sk::I(s) => {
                let inv: BTreeMap<i64, u32> = (0..domain).map(|i| (item_i64(i), i)).collect();
                s.frequent_items(et).iter().map(|r| (inv.get(r.item()).copied(), r.estimate(), r.lower_bound(), r.upper_bound())).collect()
            }
            Sk::U(s) => {
                let inv: BTreeMap<u64, u32> = (0..domain).map(|i| (item_u64(i), i)).collect();
                s.frequent_items(et).iter().map(|r| (inv.get(r.item()).copied(), r.estimate(), r.lower_bound(), r.upper_bound())).collect()
            }
            Sk::S(s) => {
                let inv: BTreeMap<String, u32> = (0..domain).map(|i| (item_str(i), i)).collect();
                s.frequent_items(et).iter().map(|r| (inv.get(r.item()).copied(), r.estimate(), r.lower_bound(), r.upper_bound())).collect()
            }
        }
    }
}

#[derive(Clone, Default)]
pub struct Truth {
    pub counts: BTreeMap<u32, u64>,
    pub total: u64,
    /// map sizes (lg) of every sketch in the ancestry
    pub sizes: BTreeSet<u8>,
}

impl Truth {
    fn add(&mut self, id: u32, w: u64) {
        *self.counts.entry(id).or_insert(0) += w;
        self.total += w;
    }
    fn absorb(&mut self, o: &Truth) {
        for (k, v) in &o.counts {
            *self.counts.entry(*k).or_insert(0) += v;
        }
        self.total += o.total;
        self.sizes.extend(o.sizes.iter().copied());
    }
}

#[derive(Clone)]
enum WalOp {
    Update(u32, u64),
    Merge(Vec<u8>),
}

struct Node {
    sk: Sk,
    truth: Truth,
    lg: u8,
    /// framed checkpoint generations: (frame bytes, durable?, wal index at the time)
    gens: Vec<(Vec<u8>, bool, usize)>,
    wal: Vec<WalOp>,
}

struct Msg {
    id: u64,
    to: u8,
    bytes: Vec<u8>,
    truth: Truth,
}

fn crc32(data: &[u8]) -> u32 {
    let mut c = 0xffff_ffffu32;
    for &b in data {
        c ^= b as u32;
        for _ in 0..8 {
            c = if c & 1 != 0 { (c >> 1) ^ 0xEDB8_8320 } else { c >> 1 };
        }
    }
    !c
}
pub fn frame(img: &[u8]) -> Vec<u8> {
    let mut f = (img.len() as u32).to_le_bytes().to_vec();
    f.extend_from_slice(img);
    f.extend_from_slice(&crc32(img).to_le_bytes());
    f
}
pub fn unframe(f: &[u8]) -> Option<&[u8]> {
    if f.len() < 8 {
        return None;
    }
    let n = u32::from_le_bytes(f[..4].try_into().unwrap()) as usize;
    if f.len() != n + 8 {
        return None;
    }
    let img = &f[4..4 + n];
    if crc32(img).to_le_bytes() != f[4 + n..] {
        return None;
    }
    Some(img)
}

const EPS_FACTOR: f64 = 3.5;

fn check_node(name: &str, nd: &Node, domain: u32, deep: bool, st: &mut RunStats) -> Result<(), Violation> {
    let tw = lib_call("total_weight", || nd.sk.total_weight())?;
    check!(tw == nd.truth.total, "C07.total_weight", "{name}: total_weight {tw} but exact stream weight is {}", nd.truth.total);
    let na = nd.sk.num_active();
    let cap = nd.sk.max_cap();
    check!(na <= cap, "C07.map_capacity", "{name}: {na} active items exceed maximum_map_capacity {cap}");
    let me = nd.sk.maximum_error();
    st.lib_calls += 4;
    st.observe_u64(me);
    if nd.truth.sizes.len() == 1 {
        let lg = *nd.truth.sizes.iter().next().unwrap();
        if lg <= 10 {
            let eps = EPS_FACTOR / (1u64 << lg) as f64;
            check!(me as f64 <= eps * tw as f64 + 1e-9, "C07.epsilon", "{name}: maximum_error {me} exceeds epsilon*total_weight = {} (map size 2^{lg}, total {tw})", eps * tw as f64);
        }
    }
    if !deep {
        return Ok(());
    }
    for id in 0..domain {
        let t = nd.truth.counts.get(&id).copied().unwrap_or(0);
        let (lb, est, ub) = lib_call("bounds", || nd.sk.bounds(id))?;
        st.lib_calls += 3;
        check!(lb <= t && t <= ub, "C07.bounds_bracket", "{name}: item {id}: lower_bound {lb} <= true {t} <= upper_bound {ub} violated (max_error {me}, total {tw}, active {na})");
        check!(ub - lb <= me, "C07.bound_width", "{name}: item {id}: upper-lower = {} exceeds maximum_error {me}", ub - lb);
        check!(est == 0 || (lb <= est && est <= ub), "C07.estimate_range", "{name}: item {id}: estimate {est} outside [{lb},{ub}] and not 0");
    }
    let heavy: BTreeSet<u32> = nd.truth.counts.iter().filter(|(_, c)| **c > me).map(|(k, _)| *k).collect();
    for (et, nm) in [(ErrorType::NoFalsePositives, "NoFalsePositives"), (ErrorType::NoFalseNegatives, "NoFalseNegatives")] {
        let rows = lib_call("frequent_items", || nd.sk.rows(et, domain))?;
        st.lib_calls += 1;
        let mut prev = u64::MAX;
        let mut seen = BTreeSet::new();
        for (id, est, lb, ub) in &rows {
            check!(*est <= prev, "C07.rows_sorted", "{name}: frequent_items({nm}) rows are not sorted by estimate descending");
            prev = *est;
            let Some(id) = id else {
                return Err(Violation::new("C07.unknown_item", format!("{name}: frequent_items({nm}) returned an item that was never offered")));
            };
            seen.insert(*id);
            let (plb, pest, pub_) = nd.sk.bounds(*id);
            check!(*lb == plb && *ub == pub_ && *est == pest, "C07.row_vs_point_query", "{name}: row of item {id} ({lb},{est},{ub}) differs from point queries ({plb},{pest},{pub_})");
        }
        if et == ErrorType::NoFalsePositives {
            for id in &seen {
                check!(heavy.contains(id), "C07.false_positive", "{name}: frequent_items(NoFalsePositives) returned item {id} with true count {} <= threshold {me}", nd.truth.counts.get(id).copied().unwrap_or(0));
            }
        } else {
            for id in &heavy {
                check!(seen.contains(id), "C07.false_negative", "{name}: frequent_items(NoFalseNegatives) misses item {id} with true count {} > threshold {me}", nd.truth.counts[id]);
            }
        }
        // custom thresholds: below maximum_error (documented: maximum_error is used instead), at it,
        // and at levels taken from the true counts
        let maxc = nd.truth.counts.values().copied().max().unwrap_or(0);
        for thr in [0u64, me / 2, me, me + 1, maxc / 2, maxc.saturating_sub(1), maxc, u64::MAX] {
            let eff = thr.max(me);
            let rows = lib_call("frequent_items_with_threshold", || nd.sk.rows_thr(et, domain, thr))?;
            st.lib_calls += 1;
            let mut seen = BTreeSet::new();
            for (id, ..) in &rows {
                let Some(id) = id else {
                    return Err(Violation::new("C07.unknown_item", format!("{name}: frequent_items_with_threshold({nm}, {thr}) returned an item that was never offered")));
                };
                seen.insert(*id);
            }
            if thr <= me {
                let dflt: BTreeSet<u32> = lib_call("frequent_items", || nd.sk.rows(et, domain))?.iter().filter_map(|r| r.0).collect();
                check!(seen == dflt, "C07.threshold_below_max_error", "{name}: frequent_items_with_threshold({nm}, {thr}) differs from frequent_items({nm}) although {thr} <= maximum_error {me}");
            }
            if et == ErrorType::NoFalsePositives {
                for id in &seen {
                    let t = nd.truth.counts.get(id).copied().unwrap_or(0);
                    check!(t > eff, "C07.false_positive", "{name}: frequent_items_with_threshold(NoFalsePositives, {thr}) returned item {id} with true count {t} <= {eff}");
                }
            } else {
                for (id, c) in &nd.truth.counts {
                    check!(*c <= eff || seen.contains(id), "C07.false_negative", "{name}: frequent_items_with_threshold(NoFalseNegatives, {thr}) misses item {id} with true count {c} > {eff}");
                }
            }
        }
    }
    Ok(())
}

impl Scenario for C07 {
    type Cfg = Cfg;
    type Act = Act;
    fn name(&self) -> &'static str {
        "c07_frequent_items"
    }
    fn runs(&self, tier: Tier) -> u64 {
        match tier {
            Tier::Quick => 30_000,
            // (2 million before the custom-threshold queries were added: they made a run six times dearer)
            Tier::Thorough => 800_000,
        }
    }
    fn generate(&self, rng: &mut Rng, tier: Tier) -> (Cfg, Vec<Act>) {
        let kind = rng.below(3) as u8;
        let nn = rng.range(2, 6) as usize;
        let hi = if tier == Tier::Quick { 8 } else { 11 };
        // max_map_size 1, 2 and 4 are valid (documented as clamped up to 8): 1 run in 8 uses them
        let lo = if rng.chance(1, 8) { 0 } else { 3 };
        let base = rng.range(lo, hi) as u8;
        let mixed = rng.chance(1, 3);
        let lg_sizes: Vec<u8> = (0..nn).map(|_| if mixed { rng.range(lo, hi) as u8 } else { base }).collect();
        let domain = *rng.pick(&[16u32, 40, 100, 400, 1500]);
        let mut acts = vec![];
        if kind == 0 && rng.chance(1, 150) {
            // an adversarial key set: some 300 items whose home slot (Murmur, seed 9001, low bits) is one
            // of the first four of a 512- or 1024-slot map - one probe run longer than 255 slots - the
            // late ones heavy, then fillers up to the purge that removes the light head of the run
            let lg = *rng.pick(&[9u8, 10]);
            let mut colliders: Vec<u32> = vec![];
            let mut others: Vec<u32> = vec![];
            let mut id = rng.below(2000) as u32;
            while colliders.len() < 310 {
                let h = crate::refhash::murmur3_x64_128(&item_i64(id).to_le_bytes(), 9001).0;
                if h & 1023 < 4 {
                    colliders.push(id);
                } else if others.len() < 900 {
                    others.push(id);
                }
                id += 1;
            }
            for &c in &colliders[..270] {
                acts.push(Act::Update { n: 0, item: c, w: 1 });
            }
            for &c in &colliders[270..] {
                acts.push(Act::Update { n: 0, item: c, w: 1000 });
            }
            for &o in &others {
                acts.push(Act::Update { n: 0, item: o, w: 1 });
            }
            acts.push(Act::Check { n: 0 });
            return (Cfg { kind, lg_sizes: vec![lg, lg], domain: id + 1 }, acts);
        }
        if rng.chance(1, 40) {
            // a count beyond i64::MAX (valid for the u64 counters; the total still fits u64): the
            // node that takes it keeps updating, purging, checkpointing and restarting
            acts.push(Act::Update { n: rng.below(nn as u64) as u8, item: rng.below(domain as u64) as u32, w: u64::MAX });
        }
        let steps = 5 + rng.usize_below(40);
        for _ in 0..steps {
            match rng.below(20) {
                0..=9 => {
                    // an update burst in one of the stream shapes
                    let n = rng.below(nn as u64) as u8;
                    let cap = 3 * (1u32 << lg_sizes[n as usize].max(3)) / 4;
                    let len = 1 + rng.usize_below(300);
                    match rng.below(6) {
                        0 => {
                            // all-equal counts filling the map exactly, then one more distinct item:
                            // the purge's median equals every counter and removes them all
                            let w = 1 + rng.below(5);
                            let start = rng.below(domain as u64) as u32;
                            for i in 0..=cap {
                                acts.push(Act::Update { n, item: (start + i) % domain.max(cap + 2), w });
                            }
                        }
                        1 => {
                            // skewed
                            for _ in 0..len {
                                let z = rng.geometric(10);
                                acts.push(Act::Update { n, item: rng.below((1u64 << z).min(domain as u64)) as u32, w: 1 + rng.below(3) });
                            }
                        }
                        2 => {
                            // all distinct
                            let s = rng.below(domain as u64) as u32;
                            for i in 0..len as u32 {
                                acts.push(Act::Update { n, item: (s + i) % domain, w: 1 });
                            }
                        }
                        3 => {
                            // one giant plus dust
                            acts.push(Act::Update { n, item: rng.below(domain as u64) as u32, w: 1 << rng.range(20, 40) });
                            for _ in 0..len {
                                acts.push(Act::Update { n, item: rng.below(domain as u64) as u32, w: 1 });
                            }
                        }
                        _ => {
                            for _ in 0..len {
                                acts.push(Act::Update { n, item: rng.below(domain as u64) as u32, w: 1 + rng.below(20) });
                            }
                        }
                    }
                }
                10..=12 => {
                    let from = rng.below(nn as u64) as u8;
                    let mut to = rng.below(nn as u64) as u8;
                    if to == from {
                        to = (to + 1) % nn as u8;
                    }
                    acts.push(Act::Flush { from, to, wire: rng.chance(2, 3) });
                }
                13..=14 => acts.push(Act::Deliver { pick: if rng.chance(1, 2) { 0 } else { rng.next_u32() } }),
                15 => acts.push(if rng.chance(1, 2) { Act::Dup { pick: rng.next_u32() } } else { Act::Drop { pick: rng.next_u32() } }),
                16 => acts.push(Act::Checkpoint { n: rng.below(nn as u64) as u8, sync: rng.chance(2, 3) }),
                17 => acts.push(Act::Crash { n: rng.below(nn as u64) as u8, torn: rng.chance(1, 2) }),
                _ => acts.push(Act::Check { n: rng.below(nn as u64) as u8 }),
            }
        }
        (Cfg { kind, lg_sizes, domain }, acts)
    }

    fn execute(&self, cfg: &Cfg, acts: &[Act], st: &mut RunStats) -> Result<(), Violation> {
        if cfg.lg_sizes.len() < 2 {
            return Ok(());
        }
        let kind = cfg.kind % 3;
        // the checked domain covers every item id the script offers
        let domain = acts.iter().filter_map(|a| if let Act::Update { item, .. } = a { Some(*item + 1) } else { None }).max().unwrap_or(1).max(cfg.domain.max(1));
        let mut nodes: Vec<Node> = cfg
            .lg_sizes
            .iter()
            .map(|&raw| {
                // the sketch is constructed with the requested size; the model uses the effective one
                let raw = raw.min(12);
                let lg = raw.max(3);
                let mut t = Truth::default();
                t.sizes.insert(lg);
                Node { sk: Sk::new(kind, raw), truth: t, lg, gens: vec![], wal: vec![] }
            })
            .collect();
        let nn = nodes.len();
        let mut net: Vec<Msg> = vec![];
        let mut next_id = 0u64;
        let mut delivered: BTreeSet<u64> = BTreeSet::new();
        st.shape_seq(kind as u64);

        fn merge_bytes(nd: &mut Node, kind: u8, bytes: &[u8], truth: Option<&Truth>, st: &mut RunStats) -> Result<(), Violation> {
            let other = match lib_call("FrequentItemsSketch::deserialize", || Sk::deserialize(kind, bytes))? {
                Ok(o) => o,
                Err(e) => return Err(Violation::new("C07.valid_image_rejected", format!("an intact image written by serialize() was rejected: {e} (image {} bytes: {})", bytes.len(), crate::item::hex(&bytes[..bytes.len().min(40)])))),
            };
            lib_call("FrequentItemsSketch::merge", || nd.sk.merge(&other))?;
            st.lib_calls += 2;
            if let Some(t) = truth {
                nd.truth.absorb(t);
            }
            Ok(())
        }

        for act in acts {
            st.ticks += 1;
            match act {
                Act::Update { n, item, w } => {
                    let nd = &mut nodes[*n as usize % nn];
                    // u64::MAX marks the one very heavy update of a run: a count beyond i64::MAX
                    let w = if *w == u64::MAX { (1u64 << 63) + *item as u64 * 17 } else { (*w).clamp(1, 1 << 44) };
                    // keep the documented precondition: total weight < 2^64
                    if nd.truth.total.checked_add(w).is_none_or(|t| t > u64::MAX - (1 << 50)) {
                        continue;
                    }
                    if w >= 1 << 63 {
                        st.probe("fi_count_beyond_i64_max");
                    }
                    lib_call("update_with_count", || nd.sk.update(*item, w))?;
                    nd.truth.add(*item, w);
                    nd.wal.push(WalOp::Update(*item, w));
                    st.lib_calls += 1;
                    check_node("node", nd, domain, false, st)?;
                    if nd.sk.num_active() == 0 && nd.truth.total > 0 {
                        st.probe("fi_purge_removed_every_counter");
                    }
                }
                Act::Flush { from, to, wire } => {
                    let (f, t) = (*from as usize % nn, *to as usize % nn);
                    if f == t {
                        continue;
                    }
                    if nodes[f].truth.total + nodes[t].truth.total > (1 << 62) {
                        continue;
                    }
                    if nodes[f].sk.num_active() == 0 && nodes[f].truth.total > 0 {
                        st.probe("fi_flush_of_purged_to_nothing_sketch");
                    }
                    st.shape_seq(10 + *wire as u64 + 2 * (nodes[f].lg != nodes[t].lg) as u64);
                    if *wire {
                        let bytes = lib_call("FrequentItemsSketch::serialize", || nodes[f].sk.serialize())?;
                        st.lib_calls += 1;
                        st.observe(&bytes);
                        net.push(Msg { id: next_id, to: t as u8, bytes, truth: nodes[f].truth.clone() });
                        next_id += 1;
                    } else {
                        let (a, b) = if f < t {
                            let (x, y) = nodes.split_at_mut(t);
                            (&x[f], &mut y[0])
                        } else {
                            let (x, y) = nodes.split_at_mut(f);
                            (&y[0], &mut x[t])
                        };
                        lib_call("FrequentItemsSketch::merge", || b.sk.merge(&a.sk))?;
                        st.lib_calls += 1;
                        b.truth.absorb(&a.truth);
                        // the WAL records the merge as the image of the partner (harness protocol)
                        b.wal.push(WalOp::Merge(a.sk.serialize()));
                        check_node("node(after in-memory merge)", b, domain, true, st)?;
                    }
                }
                Act::Deliver { pick } => {
                    if net.is_empty() {
                        continue;
                    }
                    let idx = *pick as usize % net.len();
                    if idx != 0 {
                        st.fault("reorder");
                    }
                    let m = net.remove(idx);
                    if !delivered.insert(m.id) {
                        st.fault("duplicate_suppressed_by_receiver");
                        continue;
                    }
                    let nd = &mut nodes[m.to as usize];
                    merge_bytes(nd, kind, &m.bytes, Some(&m.truth), st)?;
                    nd.wal.push(WalOp::Merge(m.bytes.clone()));
                    st.nontrivial = true;
                    check_node("node(after wire merge)", nd, domain, true, st)?;
                }
                Act::Dup { pick } => {
                    if !net.is_empty() {
                        let idx = *pick as usize % net.len();
                        let m = &net[idx];
                        let d = Msg { id: m.id, to: m.to, bytes: m.bytes.clone(), truth: m.truth.clone() };
                        net.push(d);
                        st.fault("duplicate_on_wire");
                    }
                }
                Act::Drop { .. } => {
                    if !net.is_empty() {
                        st.fault("loss_then_retransmit");
                    }
                }
                Act::Checkpoint { n, sync } => {
                    let nd = &mut nodes[*n as usize % nn];
                    let img = lib_call("FrequentItemsSketch::serialize", || nd.sk.serialize())?;
                    st.lib_calls += 1;
                    let w = nd.wal.len();
                    nd.gens.push((frame(&img), *sync, w));
                    if nd.gens.len() > 2 {
                        nd.gens.remove(0);
                    }
                    st.fault(if *sync { "checkpoint_synced" } else { "checkpoint_unsynced" });
                }
                Act::Crash { n, torn } => {
                    let nd = &mut nodes[*n as usize % nn];
                    st.fault("crash_restart");
                    // resolve the write cache: an unsynced newest generation is torn or lost
                    if let Some(last) = nd.gens.last_mut() {
                        if !last.1 {
                            if *torn {
                                let l = last.0.len();
                                last.0.truncate(l / 2);
                                st.fault("torn_checkpoint");
                            } else {
                                last.1 = true; // happened to reach the platter
                            }
                        }
                    }
                    // restart: newest generation whose frame verifies, then WAL suffix
                    let mut restored: Option<(Sk, usize)> = None;
                    for (f, _, w) in nd.gens.iter().rev() {
                        if let Some(img) = unframe(f) {
                            match lib_call("FrequentItemsSketch::deserialize(restore)", || Sk::deserialize(kind, img))? {
                                Ok(s) => {
                                    restored = Some((s, *w));
                                    break;
                                }
                                Err(e) => return Err(Violation::new("C07.valid_image_rejected", format!("restore: an intact checkpoint image was rejected: {e} (image {} bytes: {})", img.len(), crate::item::hex(&img[..img.len().min(40)])))),
                            }
                        } else {
                            st.fault("checkpoint_rejected_by_frame_crc");
                        }
                    }
                    let (mut sk, from) = restored.unwrap_or_else(|| (Sk::new(kind, nd.lg), 0));
                    let ops: Vec<WalOp> = nd.wal[from..].to_vec();
                    let mut tmp = Node { sk: Sk::new(kind, nd.lg), truth: Truth::default(), lg: nd.lg, gens: vec![], wal: vec![] };
                    std::mem::swap(&mut tmp.sk, &mut sk);
                    for op in &ops {
                        match op {
                            WalOp::Update(i, w) => {
                                lib_call("update_with_count(wal)", || tmp.sk.update(*i, *w))?;
                            }
                            WalOp::Merge(b) => merge_bytes(&mut tmp, kind, b, None, st)?,
                        }
                        st.lib_calls += 1;
                    }
                    nd.sk = tmp.sk;
                    // generations that did not verify are gone
                    nd.gens.retain(|g| unframe(&g.0).is_some());
                    st.nontrivial = true;
                    check_node("node(after restart)", nd, domain, true, st)?;
                }
                Act::Check { n } => {
                    let nd = &nodes[*n as usize % nn];
                    check_node("node", nd, domain, true, st)?;
                }
            }
        }
        // quiescence
        let pending = std::mem::take(&mut net);
        for m in pending {
            if !delivered.insert(m.id) {
                continue;
            }
            let nd = &mut nodes[m.to as usize];
            merge_bytes(nd, kind, &m.bytes, Some(&m.truth), st)?;
        }
        for (i, nd) in nodes.iter().enumerate() {
            check_node(&format!("node{i}(final)"), nd, domain, true, st)?;
        }
        Ok(())
    }

    fn shrink_action(&self, a: &Act) -> Vec<Act> {
        match a {
            Act::Update { n, item, w } if *w > 1 => vec![Act::Update { n: *n, item: *item, w: 1 }, Act::Update { n: *n, item: *item, w: w / 2 }],
            Act::Flush { from, to, wire: true } => vec![Act::Flush { from: *from, to: *to, wire: false }],
            _ => vec![],
        }
    }
}
