//! C13 — every image variant Java/C++ can emit is read back to the state it encodes.
//!
//! System: ForeignWriter stubs (independent spec encoders) generate abstract states per family
//! and encode each in the variants the Java/C++ writers produce - including those this library
//! never writes itself - and inject them as ordinary messages to real nodes, which deserialize
//! them, answer queries, merge them with locally built sketches, keep operating on them and
//! re-serialize (the re-serialized image goes back to the ForeignReader).

use crate::check;
use crate::core::{RunStats, Scenario, Tier, Violation, lib_call};
use crate::model::hll::{fold_coupons, kxq_sum};
use crate::refhash;
use crate::rng::Rng;
use crate::scen::c02::gen_coupons;
use crate::scen::c08::{Cm, CmModel, type_max};
use crate::scen::c09::{BloomModel, encode_image as bloom_encode};
use crate::speccodec as sc;
use datasketches::bloom::BloomFilter;
use datasketches::common::NumStdDev;
use datasketches::frequencies::FrequentItemsSketch;
use datasketches::hll::{HllSketch, HllType, HllUnion};
use datasketches::tdigest::TDigestMut;
use datasketches::theta::CompactThetaSketch;
use serde::{Deserialize, Serialize};
use std::collections::BTreeSet;

pub struct C13;

#[derive(Clone, Serialize, Deserialize)]
pub struct Cfg {
    pub note: String,
}

#[derive(Clone, Serialize, Deserialize)]
#[serde(tag = "k")]
pub enum Act {
    /// mode: 0 list, 1 set, 2 hll; layout 0 compact, 1 updatable
    Hll { lg_k: u8, ty: u8, mode: u8, layout: u8, ooo: bool, coupons: Vec<u32>, more: Vec<u32>, #[serde(default)] legacy: bool },
    /// ver 1..=4; theta64 (MAX = exact); flags: bit0 ordered, bit1 single-item flag, bit2 java p field
    Theta { ver: u8, entries: Vec<u64>, theta: u64, flags: u8, seed: u64 },
    /// `n` entries (i + 1) * step: entry counts at the edges of the 2-, 3- and 4-byte count fields
    ThetaBig { ver: u8, n: u32, step: u16, theta_exact: bool, flags: u8 },
    /// form 0 native f64, 1 native f32, 2 reference asBytes, 3 reference asSmallBytes
    Td { form: u8, kk: u16, cents: Vec<(u64, u64)>, buffered: Vec<u64>, reverse: bool },
    BloomDirty { bits: u64, hashes: u16, seed: u64, items: Vec<u64>, dirty: bool },
    /// a saturated filter of 2^32 bits (every bit set) from a foreign writer, its bit count marked dirty
    /// or stated exactly: set-bit counts beyond u32::MAX
    BloomHuge { dirty: bool, seed: u64 },
    Fi { strings: bool, lg_max: u8, lg_cur: u8, offset: u64, extra_weight: u64, entries: Vec<(u32, u64)>, legacy_empty: bool },
    Cm { ty: u8, hashes: u8, buckets: u32, seed: u64, items: Vec<(u64, u64)> },
}

fn ty(t: u8) -> HllType {
    match t % 3 {
        0 => HllType::Hll4,
        1 => HllType::Hll6,
        _ => HllType::Hll8,
    }
}

fn fix_coupon(c: u32) -> u32 {
    ((c >> 26).clamp(1, 63) << 26) | (c & 0x3ff_ffff)
}

fn hll_case(lg_k: u8, t: u8, mode: u8, layout: u8, ooo: bool, coupons: &[u32], more: &[u32], legacy: bool, st: &mut RunStats) -> Result<(), Violation> {
    let lg_k = lg_k.clamp(4, 21);
    let t = t % 3;
    let set: BTreeSet<u32> = coupons.iter().map(|c| fix_coupon(*c)).collect();
    let mode = match mode % 3 {
        0 if set.len() <= 7 => 0,
        0 | 1 if set.len() >= 1 && lg_k >= 8 && 4 * set.len() <= 3 * (1usize << (lg_k - 3)) => 1,
        0 | 1 if set.is_empty() => 0,
        _ => 2,
    };
    let layout_e = if layout % 2 == 0 { sc::hll::Layout::Compact } else { sc::hll::Layout::Updatable };
    let list: Vec<u32> = set.iter().copied().collect();
    let regs = fold_coupons(set.iter(), lg_k);
    if mode == 2 && regs.iter().all(|&v| v == 0) {
        return Ok(());
    }
    let nonzero = regs.iter().filter(|&&v| v > 0).count() as f64;
    let mut img = sc::hll::encode(lg_k, t, mode, &list, &regs, ooo && mode == 2, nonzero.max(1.0), layout_e);
    if legacy && mode < 2 && layout % 2 == 0 && img.len() > 4 {
        // early writers left the lgArr byte of compact list / set images at zero: the reader has to
        // derive the table size from the coupon count
        img[4] = 0;
        st.probe("hll_sparse_image_without_lg_arr");
    }
    st.fault(match (mode, layout % 2) {
        (0, 0) => "hll_list_compact",
        (0, _) => "hll_list_updatable",
        (1, 0) => "hll_set_compact",
        (1, _) => "hll_set_updatable",
        (_, 0) => "hll_array_compact_flag",
        _ => "hll_array_updatable",
    });
    if mode == 2 && t == 0 && regs.iter().any(|&v| v - regs.iter().min().unwrap() >= 15) {
        st.probe(if layout % 2 == 0 { "hll4_compact_aux_list" } else { "hll4_updatable_aux_table" });
    }
    st.observe(&img);
    let what = format!("HLL image lg_k {lg_k} type {t} mode {mode} layout {layout_e:?} ooo {ooo} ({} coupons)", set.len());
    let mut sk = match lib_call("HllSketch::deserialize", || HllSketch::deserialize(&img))? {
        Ok(s) => s,
        Err(e) => return Err(Violation::new("C13.hll_rejected", format!("{what}: valid image rejected: {e}"))),
    };
    st.lib_calls += 1;
    let s = sk.verif_state();
    check!(s.lg_config_k == lg_k && s.tgt_type == t && s.cur_mode == mode, "C13.hll_header", "{what}: restored as lg_k {} type {} mode {}", s.lg_config_k, s.tgt_type, s.cur_mode);
    check!(sk.is_empty() == set.is_empty(), "C13.hll_empty", "{what}: is_empty() = {}", sk.is_empty());
    if mode < 2 {
        let mut got = s.coupons.clone();
        got.sort_unstable();
        check!(got == list, "C13.hll_coupons", "{what}: restored {} coupons", got.len());
        check!(sk.estimate() >= list.len() as f64, "C13.hll_estimate", "{what}: estimate {} below the {} coupons held", sk.estimate(), list.len());
    } else {
        check!(s.registers == regs, "C13.hll_registers", "{what}: restored registers differ from the encoded ones at slot {:?}", s.registers.iter().zip(&regs).position(|(a, b)| a != b));
        check!(s.out_of_order == ooo, "C13.hll_ooo", "{what}: out_of_order {}", s.out_of_order);
        let e = sk.estimate();
        check!(e > 0.0 && e.is_finite(), "C13.hll_estimate", "{what}: estimate {e} for a non-empty sketch");
        if !ooo {
            check!(e == nonzero.max(1.0), "C13.hll_hip", "{what}: in-order image must answer with its HIP accumulator {}; got {e}", nonzero.max(1.0));
        }
        for sd in [NumStdDev::One, NumStdDev::Three] {
            let (lb, ub) = (sk.lower_bound(sd), sk.upper_bound(sd));
            check!(lb.is_finite() && ub.is_finite(), "C13.hll_bounds", "{what}: bounds {lb} / {ub}");
        }
    }
    // set operation: union with a local sketch equals the model union
    let more: Vec<u32> = more.iter().map(|c| fix_coupon(*c)).collect();
    let mut local = HllSketch::new(lg_k, HllType::Hll8);
    for &c in &more {
        local.verif_update_with_coupon(c);
    }
    let mut u = HllUnion::new(lg_k);
    lib_call("HllUnion::update(foreign)", || u.update(&sk))?;
    lib_call("HllUnion::update(local)", || u.update(&local))?;
    let r = lib_call("HllUnion::to_sketch", || u.to_sketch(ty(t)))?;
    st.lib_calls += 3;
    let rs = r.verif_state();
    let all: BTreeSet<u32> = set.iter().copied().chain(more.iter().copied()).collect();
    // a sketch holding this many coupons has left the modes that cannot hold them
    let must_be = |n: usize| -> u8 { if n < 8 { 0 } else if lg_k < 8 || 4 * n > 3 * (1usize << (lg_k - 3)) { 2 } else { 1 } };
    check!(rs.cur_mode >= must_be(all.len()), "C13.hll_union_mode", "{what}: union result holding {} coupons is in mode {} (promotion rule implies at least {})", all.len(), rs.cur_mode, must_be(all.len()));
    if rs.cur_mode < 2 {
        let mut got = rs.coupons.clone();
        got.sort_unstable();
        let want: Vec<u32> = all.iter().copied().collect();
        check!(mode < 2 && got == want, "C13.hll_union", "{what}: union with a local sketch of {} coupons holds {} coupons, want {}", more.len(), got.len(), want.len());
    } else {
        let mut want = fold_coupons(more.iter(), lg_k);
        for (a, b) in want.iter_mut().zip(&regs) {
            if *b > *a {
                *a = *b;
            }
        }
        // while sparse the foreign sketch contributes 26-bit coupons, not folded registers
        let want = if mode < 2 { fold_coupons(all.iter(), lg_k) } else { want };
        check!(rs.registers == want, "C13.hll_union", "{what}: union with a local sketch differs from the max-fold at slot {:?}", rs.registers.iter().zip(&want).position(|(a, b)| a != b));
        if !set.is_empty() || !more.is_empty() {
            check!(r.estimate() > 0.0, "C13.hll_union_estimate", "{what}: union estimate {}", r.estimate());
        }
    }
    // keep operating on the restored sketch, then re-serialize
    for &c in &more {
        lib_call("verif_update_with_coupon(restored)", || sk.verif_update_with_coupon(c))?;
    }
    st.lib_calls += more.len() as u64;
    let s2 = sk.verif_state();
    check!(s2.cur_mode >= must_be(all.len()), "C13.hll_mode_after_restore", "{what}: after further updates the restored sketch holds {} coupons in mode {} (promotion rule implies at least {})", all.len(), s2.cur_mode, must_be(all.len()));
    if s2.cur_mode < 2 {
        let mut got = s2.coupons.clone();
        got.sort_unstable();
        let want: Vec<u32> = all.iter().copied().collect();
        check!(got == want, "C13.hll_update_after_restore", "{what}: after {} further updates the sketch holds {} coupons, want {}", more.len(), got.len(), want.len());
    } else {
        let want = if mode < 2 {
            fold_coupons(all.iter(), lg_k)
        } else {
            let mut w = fold_coupons(more.iter(), lg_k);
            for (a, b) in w.iter_mut().zip(&regs) {
                if *b > *a {
                    *a = *b;
                }
            }
            w
        };
        check!(s2.registers == want, "C13.hll_update_after_restore", "{what}: registers after further updates differ at slot {:?}", s2.registers.iter().zip(&want).position(|(a, b)| a != b));
        let kx = kxq_sum(&want);
        check!(((s2.kxq0 + s2.kxq1) - kx).abs() <= 1e-9 * kx, "C13.hll_kxq_after_restore", "{what}: kxq {} want {kx}", s2.kxq0 + s2.kxq1);
    }
    let img2 = lib_call("HllSketch::serialize(restored)", || sk.serialize())?;
    match sc::hll::decode(&img2) {
        Ok(d) => {
            if d.mode < 2 {
                let mut got = d.coupons.clone();
                got.sort_unstable();
                let mut want = s2.coupons.clone();
                want.sort_unstable();
                check!(got == want, "C13.hll_reserialize", "{what}: re-serialized image decodes to different coupons");
            } else {
                check!(d.registers == s2.registers, "C13.hll_reserialize", "{what}: re-serialized image decodes to different registers");
            }
        }
        Err(e) => return Err(Violation::new("C13.hll_reserialize", format!("{what}: re-serialized image rejected by the foreign reader: {e}"))),
    }
    Ok(())
}

fn theta_case(ver: u8, entries: &[u64], theta: u64, flags: u8, seed: u64, st: &mut RunStats) -> Result<(), Violation> {
    if refhash::seed_hash(seed) == 0 {
        return Ok(());
    }
    let ver = 1 + (ver.wrapping_sub(1)) % 4;
    let max = sc::theta::MAX_THETA;
    let theta = if theta >= max || theta == 0 { max } else { theta };
    let mut set: BTreeSet<u64> = entries.iter().map(|e| e & max).filter(|e| *e != 0 && *e < theta).collect();
    let mut ordered = flags & 1 != 0 || ver != 3;
    let single_flag = flags & 2 != 0;
    let java_p = flags & 4 != 0;
    // versions 1, 2 carry no seed in v1 and are always ordered
    let seed = if ver == 1 { 9001 } else { seed };
    if ver == 4 && (set.is_empty() || (set.len() == 1 && theta == max)) {
        // writers never use v4 for empty / single-item sketches
        set.insert((theta / 3).max(1));
        set.insert((theta / 2).max(2));
        if set.len() < 2 {
            return Ok(());
        }
    }
    let mut list: Vec<u64> = set.iter().copied().collect();
    if !ordered && list.len() > 1 {
        // an unordered image: some other order than ascending
        list.reverse();
        let l = list.len();
        list.swap(0, l / 2);
        if list.windows(2).all(|w| w[0] < w[1]) {
            ordered = true;
        }
    }
    let empty = list.is_empty() && theta == max;
    if list.is_empty() && theta < max && ver == 4 {
        return Ok(()); // writers do not use v4 without entries
    }
    let sh = refhash::seed_hash(seed);
    let img = sc::theta::encode(ver, &list, theta, empty, ordered, sh, single_flag, java_p);
    st.fault(match ver { 1 => "theta_v1", 2 => "theta_v2", 3 => "theta_v3", _ => "theta_v4" });
    st.probe(if empty { "theta_empty" } else if list.len() == 1 && theta == max { "theta_single_item" } else if theta == max { "theta_exact" } else { "theta_estimating" });
    if ver == 3 && !ordered {
        st.probe("theta_v3_unordered");
    }
    st.observe(&img);
    let what = format!("theta v{ver} image ({} entries, theta {theta:#x}, ordered {ordered}, empty {empty})", list.len());
    let c = match lib_call("CompactThetaSketch::deserialize_with_seed", || CompactThetaSketch::deserialize_with_seed(&img, seed))? {
        Ok(c) => c,
        Err(e) => return Err(Violation::new("C13.theta_rejected", format!("{what}: valid image rejected: {e}"))),
    };
    st.lib_calls += 1;
    let got: Vec<u64> = c.iter().collect();
    check!(got == list, "C13.theta_entries", "{what}: restored {} entries (first {:?})", got.len(), got.first());
    check!(c.theta64() == theta, "C13.theta_theta", "{what}: theta64 {:#x}", c.theta64());
    check!(c.is_empty() == empty, "C13.theta_empty", "{what}: is_empty() = {}", c.is_empty());
    check!(c.num_retained() == list.len(), "C13.theta_retained", "{what}: num_retained {}", c.num_retained());
    let sorted = list.windows(2).all(|w| w[0] < w[1]);
    if c.is_ordered() {
        check!(sorted, "C13.theta_ordered", "{what}: is_ordered() although the entries are not ascending");
    }
    if ordered {
        check!(c.is_ordered(), "C13.theta_ordered", "{what}: ordered image restored as unordered");
    }
    let want_est = if empty { 0.0 } else if theta == max { list.len() as f64 } else { list.len() as f64 / (theta as f64 / max as f64) };
    check!(c.estimate() == want_est, "C13.theta_estimate", "{what}: estimate {} want {want_est}", c.estimate());
    check!(c.is_estimation_mode() == (theta < max), "C13.theta_mode", "{what}: is_estimation_mode {}", c.is_estimation_mode());
    if ver != 1 {
        check!(c.seed_hash() == sh, "C13.theta_seed_hash", "{what}: seed_hash {:#x} want {sh:#x}", c.seed_hash());
    }
    for sd in [NumStdDev::One, NumStdDev::Two, NumStdDev::Three] {
        let (lb, ub) = (lib_call("lower_bound", || c.lower_bound(sd))?, lib_call("upper_bound", || c.upper_bound(sd))?);
        check!(lb <= c.estimate() + 1e-9 && c.estimate() <= ub + 1e-9, "C13.theta_bounds", "{what}: bounds {lb} / {ub} around {}", c.estimate());
    }
    // re-serialization (both forms) must encode the same state
    for compressed in [false, true] {
        let img2 = lib_call("CompactThetaSketch::serialize*", || if compressed { c.serialize_compressed() } else { c.serialize() })?;
        st.lib_calls += 1;
        match sc::theta::decode(&img2) {
            Ok(d) => {
                let mut a = d.entries.clone();
                a.sort_unstable();
                let mut b = list.clone();
                b.sort_unstable();
                check!(a == b && d.theta == theta && d.empty == empty, "C13.theta_reserialize", "{what}: re-serialized (compressed {compressed}) image decodes to {} entries, theta {:#x}, empty {}", d.entries.len(), d.theta, d.empty);
            }
            Err(e) => return Err(Violation::new("C13.theta_reserialize", format!("{what}: re-serialized (compressed {compressed}) image rejected by the foreign reader: {e}"))),
        }
    }
    Ok(())
}

fn td_case(form: u8, k: u16, cents: &[(u64, u64)], buffered: &[u64], reverse: bool, st: &mut RunStats) -> Result<(), Violation> {
    let k = k.clamp(10, 1000);
    let form_e = match form % 4 {
        0 => sc::td::Form::NativeF64,
        1 => sc::td::Form::NativeF32,
        2 => sc::td::Form::CompatDouble,
        _ => sc::td::Form::CompatFloat,
    };
    let f32ish = matches!(form_e, sc::td::Form::NativeF32 | sc::td::Form::CompatFloat);
    let native = matches!(form_e, sc::td::Form::NativeF64 | sc::td::Form::NativeF32);
    let rnd = |v: f64| if f32ish { v as f32 as f64 } else { v };
    let mut cs: Vec<(f64, u64)> = cents.iter().map(|(b, w)| (rnd(f64::from_bits(*b)), (*w).clamp(1, 1 << 22))).filter(|c| c.0.is_finite() && c.0.abs() < 1e30).collect();
    cs.sort_by(|a, b| a.0.partial_cmp(&b.0).unwrap());
    let buf: Vec<f64> = if native { buffered.iter().map(|b| rnd(f64::from_bits(*b))).filter(|v| v.is_finite() && v.abs() < 1e30).collect() } else { vec![] };
    let total: u64 = cs.iter().map(|c| c.1).sum::<u64>() + buf.len() as u64;
    if total == 0 && !native {
        return Ok(());
    }
    if total == 1 && native && cs.is_empty() {
        cs.push((buf[0], 1));
    }
    let buf = if total == 1 { vec![] } else { buf };
    let all_vals = cs.iter().map(|c| c.0).chain(buf.iter().copied());
    let mn = all_vals.clone().fold(f64::INFINITY, f64::min);
    let mx = all_vals.fold(f64::NEG_INFINITY, f64::max);
    // extremes beyond a heavy extreme centroid
    let (mut mn, mut mx) = (mn, mx);
    if !cs.is_empty() && cs[0].1 > 1 && cs[0].0 <= mn {
        mn = rnd(mn - 1.0);
    }
    if !cs.is_empty() && cs[cs.len() - 1].1 > 1 && cs[cs.len() - 1].0 >= mx {
        mx = rnd(mx + 1.0);
    }
    let img = sc::td::encode(k, mn, mx, &cs, &buf, reverse && native, form_e);
    st.fault(match form_e {
        sc::td::Form::NativeF64 => "td_native_f64",
        sc::td::Form::NativeF32 => "td_native_f32",
        sc::td::Form::CompatDouble => "td_reference_asBytes",
        sc::td::Form::CompatFloat => "td_reference_asSmallBytes",
    });
    if !buf.is_empty() {
        st.probe("td_image_with_buffered_values");
    }
    st.probe(if total == 0 { "td_empty" } else if total == 1 { "td_single_value" } else { "td_regular" });
    st.observe(&img);
    let what = format!("t-digest {form_e:?} image (k {k}, {} centroids, {} buffered, weight {total})", cs.len(), buf.len());
    let mut d = match lib_call("TDigestMut::deserialize", || TDigestMut::deserialize(&img, form_e == sc::td::Form::NativeF32))? {
        Ok(d) => d,
        Err(e) => return Err(Violation::new("C13.td_rejected", format!("{what}: valid image rejected: {e}"))),
    };
    st.lib_calls += 1;
    check!(d.k() == k, "C13.td_k", "{what}: k {}", d.k());
    check!(d.total_weight() == total, "C13.td_weight", "{what}: total_weight {}", d.total_weight());
    check!(d.is_empty() == (total == 0), "C13.td_empty", "{what}: is_empty {}", d.is_empty());
    if total == 0 {
        return Ok(());
    }
    check!(d.min_value() == Some(mn) && d.max_value() == Some(mx), "C13.td_min_max", "{what}: min/max {:?} / {:?} want {mn} / {mx}", d.min_value(), d.max_value());
    // range / monotonicity (C10's invariants on the restored state)
    let mut prev = -1.0f64;
    for i in 0..=64 {
        let v = mn - 0.5 + (mx - mn + 1.0) * i as f64 / 64.0;
        let r = lib_call("rank", || d.rank(v))?.unwrap_or(f64::NAN);
        check!((0.0..=1.0).contains(&r), "C13.td_rank_range", "{what}: rank({v}) = {r}");
        check!(r >= prev - 1e-12 || { let dec = sc::td::decode(&d.clone().serialize(), false).ok(); dec.map(|x| { let c = x.centroids; (c[0].1 == 1 && mn < c[0].0) || (c[c.len() - 1].1 == 1 && mx > c[c.len() - 1].0) }).unwrap_or(false) }, "C13.td_rank_monotone", "{what}: rank decreases at {v}: {prev} -> {r}");
        prev = prev.max(r);
    }
    let mut prevq = f64::NEG_INFINITY;
    let tol = 1e-12 * mn.abs().max(mx.abs()).max(1e-300);
    for i in 0..=64 {
        let q = i as f64 / 64.0;
        let v = lib_call("quantile", || d.quantile(q))?.unwrap_or(f64::NAN);
        check!(v >= mn - tol && v <= mx + tol, "C13.td_quantile_range", "{what}: quantile({q}) = {v} outside [{mn},{mx}]");
        check!(v >= prevq - tol, "C13.td_quantile_monotone", "{what}: quantile decreases at {q}: {prevq} -> {v}");
        prevq = prevq.max(v);
    }
    // centroid list as restored (compression of buffered values may regroup, weights must be conserved)
    let img2 = lib_call("TDigestMut::serialize(restored)", || d.serialize())?;
    match sc::td::decode(&img2, false) {
        Ok(x) => {
            let w: u64 = x.centroids.iter().map(|c| c.1).sum();
            check!(w == total && x.min == mn && x.max == mx && x.k == k, "C13.td_reserialize", "{what}: re-serialized image has weight {w}, min {} max {} k {}", x.min, x.max, x.k);
            if buf.is_empty() && cs.len() <= 2 * k as usize {
                let same = x.centroids.len() == cs.len() && x.centroids.iter().zip(&cs).all(|(a, b)| a.0 == b.0 && a.1 == b.1);
                check!(same, "C13.td_centroids", "{what}: restored centroid list differs from the encoded one ({} vs {} centroids)", x.centroids.len(), cs.len());
            }
        }
        Err(e) => return Err(Violation::new("C13.td_reserialize", format!("{what}: re-serialized image rejected by the foreign reader: {e}"))),
    }
    // merge with a local digest and keep updating
    let mut local = TDigestMut::new(100);
    for i in 0..200 {
        local.update(mn + (mx - mn) * (i as f64 / 199.0));
    }
    lib_call("TDigestMut::merge(local <- foreign)", || local.merge(&d))?;
    check!(local.total_weight() == total + 200, "C13.td_merge_weight", "{what}: merged weight {}", local.total_weight());
    // merged into an empty digest, and into one whose values lie strictly inside the foreign range:
    // the extremes of the result are the foreign image's min and max
    let mut fresh = TDigestMut::new(k);
    lib_call("TDigestMut::merge(empty <- foreign)", || fresh.merge(&d))?;
    check!(fresh.total_weight() == total && fresh.min_value() == Some(mn) && fresh.max_value() == Some(mx), "C13.td_merge_into_empty", "{what}: empty <- foreign has weight {} min/max {:?} / {:?}, want {total} {mn} / {mx}", fresh.total_weight(), fresh.min_value(), fresh.max_value());
    let mut inner = TDigestMut::new(k);
    let mid = mn / 2.0 + mx / 2.0;
    for _ in 0..3 {
        inner.update(mid);
    }
    lib_call("TDigestMut::merge(inner <- foreign)", || inner.merge(&d))?;
    check!(inner.total_weight() == total + 3 && inner.min_value() == Some(mn.min(mid)) && inner.max_value() == Some(mx.max(mid)), "C13.td_merge_extremes", "{what}: inner <- foreign has weight {} min/max {:?} / {:?}, want {mn} / {mx}", inner.total_weight(), inner.min_value(), inner.max_value());
    lib_call("TDigestMut::merge(foreign <- inner)", || d.merge(&inner))?;
    check!(d.total_weight() == 2 * total + 3 && d.min_value() == Some(mn.min(mid)) && d.max_value() == Some(mx.max(mid)), "C13.td_merge_extremes", "{what}: foreign <- inner has weight {} min/max {:?} / {:?}", d.total_weight(), d.min_value(), d.max_value());
    let total = 2 * total + 3;
    let (mn, mx) = (mn.min(mid), mx.max(mid));
    let _ = mn;
    for i in 0..50 {
        lib_call("TDigestMut::update(restored)", || d.update(mx + i as f64))?;
    }
    check!(d.total_weight() == total + 50 && d.max_value() == Some(mx + 49.0), "C13.td_update_after_restore", "{what}: after 50 updates weight {} max {:?}", d.total_weight(), d.max_value());
    Ok(())
}

impl Scenario for C13 {
    type Cfg = Cfg;
    type Act = Act;
    fn name(&self) -> &'static str {
        "c13_foreign_images"
    }
    fn runs(&self, tier: Tier) -> u64 {
        match tier {
            Tier::Quick => 20_000,
            Tier::Thorough => 1_500_000,
        }
    }
    fn generate(&self, rng: &mut Rng, _tier: Tier) -> (Cfg, Vec<Act>) {
        let n = 2 + rng.usize_below(6);
        let mut acts = vec![];
        if rng.chance(1, 5000) {
            acts.push(Act::BloomHuge { dirty: rng.chance(2, 3), seed: rng.next_u64() });
        }
        for _ in 0..n {
            match rng.below(12) {
                0 if rng.chance(1, 25) => {
                    // a large coupon SET (tables of 2^14 .. 2^15 slots) from a foreign writer, then the
                    // same items offered again: a reader that probes the table differently from the
                    // writer does not find them and stores them twice
                    let lg_k = rng.range(17, 21) as u8;
                    let nc = rng.range(6_200, (3 * (1u64 << (lg_k - 3)) / 4).min(24_000)) as usize;
                    let coupons: Vec<u32> = (0..nc).map(|_| ((1 + rng.geometric(40)) << 26) | (rng.next_u32() & 0x3ff_ffff)).collect();
                    let mut more: Vec<u32> = (0..400).map(|_| *rng.pick(&coupons)).collect();
                    more.extend(gen_coupons(rng, lg_k, 20));
                    acts.push(Act::Hll { lg_k, ty: rng.below(3) as u8, mode: 1, layout: rng.below(2) as u8, ooo: false, coupons, more, legacy: false });
                }
                0..=3 => {
                    let lg_k = match rng.below(10) {
                        0 => 4,
                        1 => 12,
                        _ => rng.range(4, 11),
                    } as u8;
                    let k = 1usize << lg_k;
                    let nc = match rng.below(5) {
                        0 => 0,
                        1 => rng.usize_below(8),
                        2 => 8 + rng.usize_below((3 * k / 32).max(1)),
                        _ => k / 4 + rng.usize_below(3 * k),
                    };
                    let mut coupons = if nc == 0 { vec![] } else { gen_coupons(rng, lg_k, nc) };
                    // one image in eight holds exactly as many distinct coupons as a table size's 75 %
                    // load limit (6, 12, 24, 48, ...) or one more / one fewer
                    if lg_k >= 8 && rng.chance(1, 8) {
                        let lim = 3usize << rng.range(1, (lg_k - 5) as u64);
                        let want = (lim + rng.usize_below(3)).saturating_sub(1);
                        let mut setc: BTreeSet<u32> = BTreeSet::new();
                        while setc.len() < want {
                            setc.insert(fix_coupon(((1 + rng.geometric(30)) << 26) | (rng.next_u32() & 0x3ff_ffff)));
                        }
                        coupons = setc.into_iter().collect();
                    }
                    let nm = 1 + rng.usize_below(40);
                    let more = gen_coupons(rng, lg_k, nm);
                    acts.push(Act::Hll { lg_k, ty: rng.below(3) as u8, mode: rng.below(3) as u8, layout: rng.below(2) as u8, ooo: rng.chance(1, 2), coupons, more, legacy: rng.chance(1, 3) });
                }
                4 if rng.chance(1, 40) => {
                    // entry counts around 2^16 (often) and 2^24 (rarely: 128 MiB of entries)
                    let big = rng.chance(1, 10);
                    let n = if big { (1u32 << 24) - 1 + rng.below(3) as u32 } else { (1u32 << 16) - 1 + rng.below(3) as u32 };
                    let ver = if big { 4 } else { *rng.pick(&[3u8, 4, 4]) };
                    acts.push(Act::ThetaBig { ver, n, step: rng.range(1, 5000) as u16, theta_exact: rng.chance(1, 2), flags: 1 });
                }
                4..=6 => {
                    let ne = match rng.below(6) {
                        0 => 0,
                        1 => 1,
                        2 => rng.usize_below(10),
                        3 => *rng.pick(&[255usize, 256, 257]),
                        _ => rng.usize_below(600),
                    };
                    let theta = if rng.chance(1, 2) { u64::MAX } else { rng.next_u64() >> rng.range(1, 20) };
                    let cap = if theta == u64::MAX { i64::MAX as u64 } else { theta };
                    let width = rng.range(8, 63);
                    let base = rng.next_u64() >> rng.range(1, 30);
                    let entries = (0..ne).map(|_| (base.wrapping_add(rng.next_u64() >> (64 - width))) % cap.max(2)).collect();
                    acts.push(Act::Theta { ver: rng.range(1, 4) as u8, entries, theta, flags: rng.below(8) as u8, seed: if rng.chance(2, 3) { 9001 } else { rng.next_u64() } });
                }
                7..=8 => {
                    let nc = match rng.below(5) {
                        0 => 0,
                        1 => 1,
                        _ => rng.usize_below(50),
                    };
                    let base = (rng.f64() - 0.5) * 1000.0;
                    let cents = (0..nc).map(|i| ((base + i as f64 * (0.25 + rng.f64())).to_bits(), match rng.below(4) { 0 => 1, 1 => rng.range(2, 9), 2 => rng.range(10, 3000), _ => (1u64 << rng.range(12, 21)) + rng.below(1000) })).collect();
                    let nb = if rng.chance(1, 2) { 0 } else { rng.usize_below(20) };
                    let buffered = (0..nb).map(|_| (base + rng.f64() * 60.0).to_bits()).collect();
                    acts.push(Act::Td { form: rng.below(4) as u8, kk: *rng.pick(&[10u16, 30, 100, 200, 500]), cents, buffered, reverse: rng.chance(1, 2) });
                }
                9 => {
                    let items = (0..rng.below(60)).map(|_| rng.below(500)).collect();
                    acts.push(Act::BloomDirty { bits: rng.range(1, 3000), hashes: rng.range(1, 9) as u16, seed: rng.next_u64(), items, dirty: rng.chance(3, 4) });
                }
                10 => {
                    let ne = rng.usize_below(30);
                    let lg_max = rng.range(3, 8) as u8;
                    let entries = (0..ne as u32).map(|i| (i * 3 + rng.below(3) as u32, 1 + rng.below(1000))).collect();
                    acts.push(Act::Fi { strings: rng.chance(1, 2), lg_max, lg_cur: rng.range(3, lg_max as u64) as u8, offset: if rng.chance(1, 2) { 0 } else { rng.below(500) }, extra_weight: rng.below(1000), entries, legacy_empty: rng.chance(1, 2) });
                }
                _ => {
                    let items = (0..rng.below(40)).map(|_| (rng.below(100), 1 + rng.below(3))).collect();
                    acts.push(Act::Cm { ty: rng.below(8) as u8, hashes: rng.range(1, 6) as u8, buckets: rng.range(3, 80) as u32, seed: if rng.chance(1, 2) { 9001 } else { rng.next_u64() }, items });
                }
            }
        }
        (Cfg { note: "independent foreign-image deliveries".into() }, acts)
    }

    fn execute(&self, _cfg: &Cfg, acts: &[Act], st: &mut RunStats) -> Result<(), Violation> {
        for a in acts {
            st.ticks += 1;
            st.nontrivial = true;
            match a {
                Act::Hll { lg_k, ty, mode, layout, ooo, coupons, more, legacy } => hll_case(*lg_k, *ty, *mode, *layout, *ooo, coupons, more, *legacy, st)?,
                Act::Theta { ver, entries, theta, flags, seed } => theta_case(*ver, entries, *theta, *flags, *seed, st)?,
                Act::ThetaBig { ver, n, step, theta_exact, flags } => {
                    let step = (*step).max(1) as u64;
                    let entries: Vec<u64> = (0..(*n).min((1 << 24) + 2) as u64).map(|i| (i + 1) * step).collect();
                    let theta = if *theta_exact { u64::MAX } else { (entries.len() as u64 + 2) * step };
                    st.probe(if *n >= 1 << 24 { "theta_image_with_four_byte_count" } else { "theta_image_with_three_byte_count" });
                    theta_case(*ver, &entries, theta, *flags | 1, 9001, st)?;
                }
                Act::Td { form, kk, cents, buffered, reverse } => td_case(*form, *kk, cents, buffered, *reverse, st)?,
                Act::BloomHuge { dirty, seed } => {
                    let words = 1usize << 26;
                    let mut img = Vec::with_capacity(32 + 8 * words);
                    img.extend_from_slice(&[4, 1, 21, 0]);
                    img.extend_from_slice(&3u16.to_le_bytes());
                    img.extend_from_slice(&[0, 0]);
                    img.extend_from_slice(&seed.to_le_bytes());
                    img.extend_from_slice(&(words as i32).to_le_bytes());
                    img.extend_from_slice(&[0; 4]);
                    img.extend_from_slice(&(if *dirty { u64::MAX } else { 1u64 << 32 }).to_le_bytes());
                    img.resize(32 + 8 * words, 0xff);
                    st.fault("bloom_2_pow_32_bits_all_set");
                    let f = match lib_call("BloomFilter::deserialize(2^32 bits)", || BloomFilter::deserialize(&img))? {
                        Ok(f) => f,
                        Err(e) => return Err(Violation::new("C13.bloom_rejected", format!("valid saturated Bloom image of 2^32 bits (dirty {dirty}) rejected: {e}"))),
                    };
                    drop(img);
                    check!(f.bits_used() == 1 << 32 && !f.is_empty() && f.contains(&1u64), "C13.bloom_bits_used", "saturated 2^32-bit image (dirty {dirty}): bits_used {} is_empty {}", f.bits_used(), f.is_empty());
                }
                Act::BloomDirty { bits, hashes, seed, items, dirty } => {
                    let mut m = BloomModel::new((*bits).clamp(1, 1 << 18), (*hashes).clamp(1, 64), *seed);
                    for &it in items {
                        m.insert(it);
                    }
                    let img = bloom_encode(&m, *dirty);
                    st.fault(if *dirty { "bloom_dirty_marker" } else { "bloom_clean" });
                    let f = match lib_call("BloomFilter::deserialize", || BloomFilter::deserialize(&img))? {
                        Ok(f) => f,
                        Err(e) => return Err(Violation::new("C13.bloom_rejected", format!("valid Bloom image (dirty {dirty}) rejected: {e}"))),
                    };
                    let pc = m.popcount();
                    check!(f.bits_used() == pc, "C13.bloom_bits_used", "bits_used {} after restoring an image with dirty = {dirty}; the array holds {pc}", f.bits_used());
                    check!(f.num_hashes() == m.hashes && f.seed() == m.seed && f.capacity() == m.words.len() * 64, "C13.bloom_header", "restored filter shape differs");
                    for &it in items {
                        check!(f.contains(&it), "C13.bloom_false_negative", "item {it} not contained after restore");
                    }
                    let img2 = f.serialize();
                    match sc::simple::bloom_decode(&img2) {
                        Ok(d) => check!(d.bits_used == pc && (pc == 0 || d.words == m.words), "C13.bloom_reserialize", "re-serialized image differs"),
                        Err(e) => return Err(Violation::new("C13.bloom_reserialize", format!("re-serialized image rejected: {e}"))),
                    }
                }
                Act::Fi { strings, lg_max, lg_cur, offset, extra_weight, entries, legacy_empty } => {
                    let lg_max = (*lg_max).clamp(3, 12);
                    let lg_cur = (*lg_cur).clamp(3, lg_max);
                    let cap = 3 * (1usize << lg_cur) / 4;
                    let mut uniq: std::collections::BTreeMap<u32, u64> = Default::default();
                    for (id, c) in entries.iter().take(cap) {
                        uniq.insert(*id, (*c).clamp(1, 1 << 40));
                    }
                    let sum: u64 = uniq.values().sum();
                    let offset = if uniq.is_empty() && *extra_weight == 0 { 0 } else { *offset };
                    let weight = sum + if uniq.is_empty() && offset == 0 { 0 } else { *extra_weight + offset };
                    let enc: Vec<(sc::simple::FiItem, u64)> = uniq
                        .iter()
                        .map(|(id, c)| (if *strings { sc::simple::FiItem::Str(crate::scen::c07::item_str(*id).into_bytes()) } else { sc::simple::FiItem::Long(crate::scen::c07::item_i64(*id) as u64) }, *c))
                        .collect();
                    let img = sc::simple::fi_encode(lg_max, lg_cur, weight, offset, &enc, *legacy_empty);
                    st.fault(if weight == 0 { "fi_empty_form" } else if *strings { "fi_strings" } else { "fi_longs" });
                    macro_rules! fi_check {
                        ($t:ty, $mk:expr) => {{
                            let sk = match lib_call("FrequentItemsSketch::deserialize", || FrequentItemsSketch::<$t>::deserialize(&img))? {
                                Ok(s) => s,
                                Err(e) => return Err(Violation::new("C13.fi_rejected", format!("valid Frequent Items image ({} entries, weight {weight}, offset {offset}) rejected: {e}", uniq.len()))),
                            };
                            check!(sk.total_weight() == weight && sk.maximum_error() == offset, "C13.fi_weight", "restored total_weight {} / maximum_error {}; encoded {weight} / {offset}", sk.total_weight(), sk.maximum_error());
                            check!(sk.num_active_items() == uniq.len(), "C13.fi_active", "restored {} active items, encoded {}", sk.num_active_items(), uniq.len());
                            for (id, c) in &uniq {
                                let x: $t = $mk(*id);
                                check!(sk.lower_bound(&x) == *c && sk.upper_bound(&x) == *c + offset, "C13.fi_counts", "item {id}: bounds {} / {} want {c} / {}", sk.lower_bound(&x), sk.upper_bound(&x), *c + offset);
                            }
                            let img2 = sk.serialize();
                            match sc::simple::fi_decode(&img2, *strings) {
                                Ok(d) => check!(d.stream_weight == weight && d.offset == offset && d.counts.len() == uniq.len(), "C13.fi_reserialize", "re-serialized image: weight {} offset {} items {}", d.stream_weight, d.offset, d.counts.len()),
                                Err(e) => return Err(Violation::new("C13.fi_reserialize", format!("re-serialized image rejected: {e}"))),
                            }
                        }};
                    }
                    if *strings {
                        fi_check!(String, |id: u32| crate::scen::c07::item_str(id));
                    } else {
                        fi_check!(i64, |id: u32| crate::scen::c07::item_i64(id));
                    }
                }
                Act::Cm { ty, hashes, buckets, seed, items } => {
                    if refhash::seed_hash(*seed) == 0 {
                        continue;
                    }
                    let (h, b) = ((*hashes).clamp(1, 8), (*buckets).clamp(3, 512));
                    let mut m = CmModel::new(h, b, *seed);
                    let max = type_max(*ty);
                    for (it, w) in items {
                        if m.total + w > max {
                            break;
                        }
                        m.update(*it, *w);
                    }
                    let img = sc::simple::cm_encode(h, b, refhash::seed_hash(*seed), m.total, &m.table);
                    st.fault("cm_image");
                    let sk = match lib_call("CountMinSketch::deserialize", || Cm::deserialize(*ty, &img, *seed))? {
                        Ok(s) => s,
                        Err(e) => return Err(Violation::new("C13.cm_rejected", format!("valid Count-Min image rejected: {e}"))),
                    };
                    check!(sk.total() == m.total, "C13.cm_total", "restored total {} want {}", sk.total(), m.total);
                    for (it, t) in &m.truth {
                        check!(sk.estimate(*it) >= *t, "C13.cm_estimate", "estimate({it}) = {} below {t}", sk.estimate(*it));
                    }
                    let img2 = sk.serialize();
                    check!(img2 == img, "C13.cm_reserialize", "re-serialized Count-Min image differs from the canonical encoding");
                }
            }
        }
        Ok(())
    }

    fn shrink_action(&self, a: &Act) -> Vec<Act> {
        match a {
            Act::Hll { lg_k, ty, mode, layout, ooo, coupons, more, legacy } => {
                let mut v = vec![];
                if coupons.len() > 1 {
                    v.push(Act::Hll { lg_k: *lg_k, ty: *ty, mode: *mode, layout: *layout, ooo: *ooo, coupons: coupons[..coupons.len() / 2].to_vec(), more: more.clone(), legacy: *legacy });
                    v.push(Act::Hll { lg_k: *lg_k, ty: *ty, mode: *mode, layout: *layout, ooo: *ooo, coupons: coupons[coupons.len() / 2..].to_vec(), more: more.clone(), legacy: *legacy });
                }
                if !more.is_empty() {
                    v.push(Act::Hll { lg_k: *lg_k, ty: *ty, mode: *mode, layout: *layout, ooo: *ooo, coupons: coupons.clone(), more: more[..more.len() / 2].to_vec(), legacy: *legacy });
                }
                v
            }
            Act::Theta { ver, entries, theta, flags, seed } if entries.len() > 1 => vec![
                Act::Theta { ver: *ver, entries: entries[..entries.len() / 2].to_vec(), theta: *theta, flags: *flags, seed: *seed },
                Act::Theta { ver: *ver, entries: entries[entries.len() / 2..].to_vec(), theta: *theta, flags: *flags, seed: *seed },
            ],
            Act::Td { form, kk, cents, buffered, reverse } => {
                let mut v = vec![];
                if cents.len() > 1 {
                    v.push(Act::Td { form: *form, kk: *kk, cents: cents[..cents.len() / 2].to_vec(), buffered: buffered.clone(), reverse: *reverse });
                    v.push(Act::Td { form: *form, kk: *kk, cents: cents[cents.len() / 2..].to_vec(), buffered: buffered.clone(), reverse: *reverse });
                }
                if !buffered.is_empty() {
                    v.push(Act::Td { form: *form, kk: *kk, cents: cents.clone(), buffered: vec![], reverse: *reverse });
                }
                v
            }
            _ => vec![],
        }
    }
}
