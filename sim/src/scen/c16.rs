//! C16 — hashes are bit-exact MurmurHash3 / XXH64 and independent of write chunking.
//!
//! Seam: how an item's bytes are split into successive `Hasher::write` calls ("short writes",
//! including zero-length writes). Oracle: the one-shot reference digests of `refhash`.

use crate::check;
use crate::core::{RunStats, Scenario, Tier, Violation, lib_call};
use crate::item::{Chunks, hex, pieces, unhex};
use crate::refhash;
use crate::rng::Rng;
use datasketches::bloom::BloomFilterBuilder;
use datasketches::countmin::CountMinSketch;
use datasketches::cpc::CpcSketch;
use datasketches::hll::{HllSketch, HllType};
use datasketches::theta::ThetaSketch;
use serde::{Deserialize, Serialize};

pub struct C16;

#[derive(Clone, Serialize, Deserialize)]
pub struct Cfg {
    pub note: String,
}

#[derive(Clone, Serialize, Deserialize)]
#[serde(tag = "k")]
pub enum Act {
    /// one digest under one chunking
    Digest { algo: u8, seed: u64, data: String, cuts: Vec<usize> },
    /// every one of the 2^(n-1) ways to split (n <= 12)
    AllSplits { algo: u8, seed: u64, data: String },
    SeedHash { seed: u64 },
    Hll { data: String, cuts: Vec<usize> },
    Theta { seed: u64, data: String, cuts: Vec<usize> },
    Cpc { seed: u64, lg_k: u8, data: String, cuts: Vec<usize> },
    Cm { seed: u64, hashes: u8, buckets: u32, data: String, cuts: Vec<usize> },
    Bloom { seed: u64, bits: u64, hashes: u16, data: String, cuts: Vec<usize> },
    /// std-typed items: kind 0 = u64, 1 = i64, 2 = &str, 3 = String
    StdItem { kind: u8, v: u64, s: String },
    /// two replicas fed the same logical items under different chunkings
    Replicas { items: Vec<String>, cuts_a: Vec<Vec<usize>>, cuts_b: Vec<Vec<usize>> },
}

fn gen_data(rng: &mut Rng, max_len: usize) -> Vec<u8> {
    let len = match rng.below(10) {
        0 => *rng.pick(&[0usize, 1, 15, 16, 17, 31, 32, 33, 47, 48, 63, 64, 65]),
        _ => rng.usize_below(max_len + 1),
    };
    let len = len.min(max_len);
    match rng.below(8) {
        0 => vec![0u8; len],
        1 => vec![0xffu8; len],
        _ => rng.bytes(len),
    }
}

fn gen_cuts(rng: &mut Rng, n: usize, st: Option<&mut RunStats>) -> Vec<usize> {
    let mut cuts: Vec<usize> = vec![];
    let style = rng.below(8);
    match style {
        0 => {} // one big write
        1 => cuts = (1..n).collect(), // single-byte writes
        2 => {
            // block edges
            for e in [15usize, 16, 17, 31, 32, 33, 48, 64] {
                if e < n && rng.chance(1, 2) {
                    cuts.push(e);
                }
            }
        }
        4 | 5 => {
            // pieces of the sizes the typed Hasher methods take (u8 .. u128), an odd number of cuts
            // so that the item uses those methods (see item::Chunks)
            let mut p = 0usize;
            while p < n {
                p += *rng.pick(&[1usize, 2, 4, 8, 8, 16, 16]);
                if p < n {
                    cuts.push(p);
                }
            }
            if cuts.len() % 2 == 0 {
                cuts.push(n);
            }
        }
        3 => {
            // zero-length writes sprinkled in
            let k = rng.usize_below(6);
            for _ in 0..k {
                let p = rng.usize_below(n + 1);
                cuts.push(p);
                cuts.push(p);
            }
        }
        _ => {
            let k = rng.usize_below(1 + n.min(9));
            for _ in 0..k {
                cuts.push(rng.usize_below(n + 1));
            }
        }
    }
    cuts.sort_unstable();
    let _ = st;
    cuts
}

/// A hash value no random item reaches: all zero / all one words, single bits, 62..64 leading zeros.
fn extreme_word(rng: &mut Rng) -> u64 {
    match rng.below(8) {
        0 => 0,
        1 => 1,
        2 => u64::MAX,
        3 => 1u64 << rng.below(64),
        4 => (1u64 << rng.below(64)).wrapping_sub(1),
        5 => rng.below(8),
        6 if rng.chance(1, 2) => rng.next_u64() | ((1u64 << 26) - 1),
        6 => u64::MAX << rng.below(64),
        _ => rng.next_u64(),
    }
}

/// 16 bytes whose Murmur digest under `seed` is an extreme value (one time in four), else random data.
fn gen_item_bytes(rng: &mut Rng, seed: u64, max_len: usize) -> Vec<u8> {
    if rng.chance(1, 4) {
        let (h1, h2) = (extreme_word(rng), extreme_word(rng));
        refhash::murmur_preimage16(seed, h1, h2).to_vec()
    } else {
        gen_data(rng, max_len)
    }
}

fn seeds(rng: &mut Rng) -> u64 {
    match rng.below(6) {
        0 => 0,
        1 => 9001,
        2 => u64::MAX,
        _ => rng.next_u64(),
    }
}

fn count_cut_kinds(st: &mut RunStats, n: usize, cuts: &[usize]) {
    if cuts.is_empty() {
        st.fault("one_big_write");
        return;
    }
    st.fault_n("split", cuts.len() as u64);
    let mut prev = usize::MAX;
    let mut empties = 0;
    for &c in cuts {
        if c == prev || c == 0 || c >= n {
            empties += 1;
        }
        if c % 16 == 0 || c % 16 == 1 || c % 16 == 15 {
            st.fault("block_edge_split");
        }
        prev = c;
    }
    st.fault_n("empty_write", empties);
    if cuts.len() + 1 >= n && n > 1 {
        st.fault("single_byte_writes");
    }
}

fn digest_lib(algo: u8, seed: u64, data: &[u8], cuts: &[usize]) -> (u64, u64) {
    let p = pieces(data, cuts);
    if algo == 0 {
        datasketches::verif::murmur3_x64_128(seed, &p)
    } else {
        (datasketches::verif::xxhash64(seed, &p), 0)
    }
}
fn digest_ref(algo: u8, seed: u64, data: &[u8]) -> (u64, u64) {
    if algo == 0 { refhash::murmur3_x64_128(data, seed) } else { (refhash::xxh64(data, seed), 0) }
}

pub fn hll_coupon_ref(bytes: &[u8]) -> u32 {
    let (h1, h2) = refhash::murmur3_x64_128(bytes, 9001);
    let v = h2.leading_zeros().min(62) + 1;
    (v << 26) | (h1 as u32 & 0x3ff_ffff)
}

impl Scenario for C16 {
    type Cfg = Cfg;
    type Act = Act;
    fn name(&self) -> &'static str {
        "c16_chunking"
    }
    fn runs(&self, tier: Tier) -> u64 {
        match tier {
            Tier::Quick => 4_000,
            Tier::Thorough => 400_000,
        }
    }
    fn generate(&self, rng: &mut Rng, _tier: Tier) -> (Cfg, Vec<Act>) {
        let n_act = 20 + rng.usize_below(30);
        let mut acts = vec![];
        for _ in 0..n_act {
            let a = match rng.below(20) {
                0..=7 => {
                    let d = gen_data(rng, 200);
                    let cuts = gen_cuts(rng, d.len(), None);
                    Act::Digest { algo: rng.below(2) as u8, seed: seeds(rng), data: hex(&d), cuts }
                }
                8..=9 => {
                    let d = gen_data(rng, 12);
                    Act::AllSplits { algo: rng.below(2) as u8, seed: seeds(rng), data: hex(&d) }
                }
                10 => Act::SeedHash { seed: seeds(rng) },
                11..=12 => {
                    let d = gen_item_bytes(rng, 9001, 80);
                    let cuts = gen_cuts(rng, d.len(), None);
                    Act::Hll { data: hex(&d), cuts }
                }
                13 => {
                    let seed = seeds(rng);
                    let d = gen_item_bytes(rng, seed, 80);
                    let cuts = gen_cuts(rng, d.len(), None);
                    Act::Theta { seed, data: hex(&d), cuts }
                }
                14 => {
                    let seed = seeds(rng);
                    let d = gen_item_bytes(rng, seed, 80);
                    let cuts = gen_cuts(rng, d.len(), None);
                    // the largest lg_k now and then: its last row and column 63 meet the pair table's empty marker
                    Act::Cpc { seed, lg_k: if rng.chance(1, 6) { 26 } else { rng.range(4, 12) as u8 }, data: hex(&d), cuts }
                }
                15 => {
                    let seed = seeds(rng);
                    let d = gen_item_bytes(rng, seed, 80);
                    let cuts = gen_cuts(rng, d.len(), None);
                    Act::Cm { seed, hashes: rng.range(1, 8) as u8, buckets: rng.range(3, 200) as u32, data: hex(&d), cuts }
                }
                16 => {
                    let d = gen_data(rng, 80);
                    let cuts = gen_cuts(rng, d.len(), None);
                    Act::Bloom { seed: seeds(rng), bits: rng.range(1, 5000), hashes: rng.range(1, 16) as u16, data: hex(&d), cuts }
                }
                17 => {
                    let kind = rng.below(4) as u8;
                    let len = rng.usize_below(40);
                    let s: String = (0..len).map(|_| char::from_u32(rng.range(0x20, 0x24f) as u32).unwrap_or('x')).collect();
                    Act::StdItem { kind, v: rng.next_u64(), s }
                }
                _ => {
                    let n = 1 + rng.usize_below(40);
                    let mut items = vec![];
                    let mut ca = vec![];
                    let mut cb = vec![];
                    for _ in 0..n {
                        let d = gen_data(rng, 60);
                        ca.push(gen_cuts(rng, d.len(), None));
                        cb.push(gen_cuts(rng, d.len(), None));
                        items.push(hex(&d));
                    }
                    Act::Replicas { items, cuts_a: ca, cuts_b: cb }
                }
            };
            acts.push(a);
        }
        (Cfg { note: "independent hash actions".into() }, acts)
    }

    fn execute(&self, _cfg: &Cfg, acts: &[Act], st: &mut RunStats) -> Result<(), Violation> {
        for a in acts {
            st.ticks += 1;
            match a {
                Act::Digest { algo, seed, data, cuts } => {
                    let d = unhex(data);
                    count_cut_kinds(st, d.len(), cuts);
                    let got = lib_call("hasher.write*", || digest_lib(*algo, *seed, &d, cuts))?;
                    st.lib_calls += 1;
                    let want = digest_ref(*algo, *seed, &d);
                    st.observe_u64(got.0);
                    check!(
                        got == want,
                        if *algo == 0 { "C16.murmur_digest" } else { "C16.xxh64_digest" },
                        "algo {} seed {} len {} cuts {:?}: got {:x?} want {:x?}",
                        algo, seed, d.len(), cuts, got, want
                    );
                    if !cuts.is_empty() {
                        st.nontrivial = true;
                    }
                    st.shape_seq((d.len() % 32) as u64 * 4 + *algo as u64);
                }
                Act::AllSplits { algo, seed, data } => {
                    let d = unhex(data);
                    let n = d.len();
                    let want = digest_ref(*algo, *seed, &d);
                    let combos = if n <= 1 { 1u32 } else { 1u32 << (n - 1).min(12) };
                    for mask in 0..combos {
                        let cuts: Vec<usize> = (1..n).filter(|i| mask >> (i - 1) & 1 == 1).collect();
                        let got = lib_call("hasher.write*", || digest_lib(*algo, *seed, &d, &cuts))?;
                        check!(
                            got == want,
                            if *algo == 0 { "C16.murmur_digest" } else { "C16.xxh64_digest" },
                            "all-splits algo {} seed {} data {} cuts {:?}: got {:x?} want {:x?}",
                            algo, seed, data, cuts, got, want
                        );
                    }
                    st.lib_calls += combos as u64;
                    st.fault_n("exhaustive_splits", combos as u64);
                    st.nontrivial = true;
                    st.shape_seq(1000 + n as u64);
                }
                Act::SeedHash { seed } => {
                    let want = refhash::seed_hash(*seed);
                    if want == 0 {
                        // the library asserts seed_hash != 0 by design (documented restriction)
                        continue;
                    }
                    let got = lib_call("seed_hash", || datasketches::verif::seed_hash(*seed))?;
                    check!(got == want, "C16.seed_hash", "seed {seed}: got {got} want {want}");
                    let sk = lib_call("theta.build", || ThetaSketch::builder().lg_k(5).seed(*seed).build())?;
                    let c = lib_call("theta.compact", || sk.compact(true))?;
                    check!(c.seed_hash() == want, "C16.seed_hash", "compact theta seed_hash {} want {}", c.seed_hash(), want);
                    let cpc = lib_call("cpc.serialize", || CpcSketch::with_seed(10, *seed).serialize())?;
                    let got2 = u16::from_le_bytes([cpc[6], cpc[7]]);
                    check!(got2 == want, "C16.seed_hash", "cpc preamble seed hash {got2} want {want}");
                    st.lib_calls += 4;
                }
                Act::Hll { data, cuts } => {
                    let d = unhex(data);
                    count_cut_kinds(st, d.len(), cuts);
                    let want = hll_coupon_ref(&d);
                    let mut sk = HllSketch::new(12, HllType::Hll8);
                    lib_call("hll.update", || sk.update(Chunks { data: &d, cuts }))?;
                    let stt = sk.verif_state();
                    check!(stt.coupons == vec![want], "C16.hll_coupon", "data {data} cuts {cuts:?}: coupons {:x?} want {want:x}", stt.coupons);
                    let img = lib_call("hll.serialize", || sk.serialize())?;
                    check!(img.len() == 12 && img[8..12] == want.to_le_bytes(), "C16.hll_coupon", "list image coupon bytes {:x?} want {want:x}", &img[8..]);
                    st.lib_calls += 2;
                    st.nontrivial |= !cuts.is_empty();
                }
                Act::Theta { seed, data, cuts } => {
                    if refhash::seed_hash(*seed) == 0 {
                        continue;
                    }
                    let d = unhex(data);
                    count_cut_kinds(st, d.len(), cuts);
                    let h = refhash::murmur3_x64_128(&d, *seed).0 >> 1;
                    let mut sk = ThetaSketch::builder().lg_k(5).seed(*seed).build();
                    lib_call("theta.update", || sk.update(Chunks { data: &d, cuts }))?;
                    let got: Vec<u64> = sk.iter().collect();
                    let want: Vec<u64> = if h == 0 || h >= i64::MAX as u64 { vec![] } else { vec![h] };
                    check!(got == want, "C16.theta_hash", "seed {seed} data {data} cuts {cuts:?}: got {got:x?} want {want:x?}");
                    st.lib_calls += 1;
                    st.nontrivial |= !cuts.is_empty();
                }
                Act::Cpc { seed, lg_k, data, cuts } => {
                    if refhash::seed_hash(*seed) == 0 {
                        continue;
                    }
                    let d = unhex(data);
                    count_cut_kinds(st, d.len(), cuts);
                    let (h1, h2) = refhash::murmur3_x64_128(&d, *seed);
                    let k = 1u64 << lg_k;
                    let row = (h1 & (k - 1)) as usize;
                    let col = h2.leading_zeros().min(63);
                    let mut sk = CpcSketch::with_seed(*lg_k, *seed);
                    lib_call("cpc.update", || sk.update(Chunks { data: &d, cuts }))?;
                    if *lg_k > 16 {
                        // no 2^lg_k-row matrix for the large configuration: the single coupon is read
                        // back through a round trip into a union of the same size reduced by nothing
                        check!(sk.num_coupons() == 1 && !sk.is_empty(), "C16.cpc_row_col", "seed {seed} lg_k {lg_k} data {data}: one item offered, num_coupons {}", sk.num_coupons());
                        let mut twin = CpcSketch::with_seed(*lg_k, *seed);
                        // the documented derivation, including the remap of the pair that would collide with the table's empty marker
                        let mut rc = ((row as u32) << 6) | col;
                        if rc == u32::MAX {
                            rc ^= 1 << 6;
                        }
                        twin.verif_row_col_update(rc);
                        check!(sk.serialize() == twin.serialize(), "C16.cpc_row_col", "seed {seed} lg_k {lg_k} data {data}: the sketch of the item differs from the sketch of its reference pair (row {row}, col {col})");
                        st.lib_calls += 1;
                        continue;
                    }
                    let m = sk.verif_bit_matrix();
                    let mut want = vec![0u64; k as usize];
                    want[row] = 1u64 << col;
                    check!(m == want, "C16.cpc_row_col", "seed {seed} lg_k {lg_k} data {data} cuts {cuts:?}: want row {row} col {col}; got rows {:?}", m.iter().enumerate().filter(|(_, w)| **w != 0).collect::<Vec<_>>());
                    // the same derivation must hold for a sketch handed out by a union configured with
                    // that seed - also after the union was reduced to a smaller lg_k by a sparse input
                    let lg_u = (*lg_k + 1 + (d.len() as u8 % 3)).min(16).max(*lg_k);
                    let mut u = datasketches::cpc::CpcUnion::with_seed(lg_u, *seed);
                    let mut first = CpcSketch::with_seed(lg_u, *seed);
                    first.update(0x5eed_u64);
                    lib_call("cpc union", || {
                        u.update(&first);
                        u.update(&sk);
                    })?;
                    let mut r = lib_call("CpcUnion::to_sketch", || u.to_sketch())?;
                    let before = r.verif_bit_matrix();
                    check!(r.lg_k() == *lg_k && before[row] >> col & 1 == 1, "C16.cpc_row_col", "seed {seed}: union result (lg_k {}) lost the item's pair (row {row}, col {col})", r.lg_k());
                    lib_call("cpc.update(union result)", || r.update(Chunks { data: &d, cuts }))?;
                    check!(r.verif_bit_matrix() == before, "C16.cpc_row_col", "seed {seed} lg_k {lg_k} data {data}: offering the same item to the union's result changed its matrix (the result derives rows / columns with another seed)");
                    st.lib_calls += 1;
                    st.nontrivial |= !cuts.is_empty();
                }
                Act::Cm { seed, hashes, buckets, data, cuts } => {
                    if refhash::seed_hash(*seed) == 0 {
                        continue;
                    }
                    let d = unhex(data);
                    count_cut_kinds(st, d.len(), cuts);
                    let mut sk = CountMinSketch::<u64>::with_seed(*hashes, *buckets, *seed);
                    lib_call("cm.update", || sk.update_with_weight(Chunks { data: &d, cuts }, 7))?;
                    let img = lib_call("cm.serialize", || sk.serialize())?;
                    let mut want = vec![0u64; *hashes as usize * *buckets as usize];
                    for r in 0..*hashes as usize {
                        let rs = refhash::murmur3_x64_128(&(r as u64).to_le_bytes(), *seed).0;
                        let b = (refhash::murmur3_x64_128(&d, rs).0 % *buckets as u64) as usize;
                        want[r * *buckets as usize + b] += 7;
                    }
                    check!(img.len() == 24 + 8 * want.len(), "C16.cm_bucket", "image length {} for {}x{}", img.len(), hashes, buckets);
                    let got: Vec<u64> = img[24..].chunks(8).map(|c| u64::from_le_bytes(c.try_into().unwrap())).collect();
                    check!(got == want, "C16.cm_bucket", "seed {seed} {hashes}x{buckets} data {data} cuts {cuts:?}: table differs from reference buckets");
                    st.lib_calls += 2;
                    st.nontrivial |= !cuts.is_empty();
                }
                Act::Bloom { seed, bits, hashes, data, cuts } => {
                    let d = unhex(data);
                    count_cut_kinds(st, d.len(), cuts);
                    let mut f = BloomFilterBuilder::with_size(*bits, *hashes).seed(*seed).build();
                    lib_call("bloom.insert", || f.insert(Chunks { data: &d, cuts }))?;
                    let img = lib_call("bloom.serialize", || f.serialize())?;
                    let words = bits.div_ceil(64) as usize;
                    let cap = (words * 64) as u64;
                    let h0 = refhash::xxh64(&d, *seed);
                    let h1 = refhash::xxh64(&d, h0);
                    let mut want = vec![0u64; words];
                    for i in 1..=*hashes as u64 {
                        let p = (h0.wrapping_add(i.wrapping_mul(h1)) >> 1) % cap;
                        want[(p / 64) as usize] |= 1u64 << (p % 64);
                    }
                    check!(img.len() == 32 + 8 * words, "C16.bloom_positions", "image length {} for {} words", img.len(), words);
                    let got: Vec<u64> = img[32..].chunks(8).map(|c| u64::from_le_bytes(c.try_into().unwrap())).collect();
                    check!(got == want, "C16.bloom_positions", "seed {seed} bits {bits} hashes {hashes} data {data} cuts {cuts:?}: bits differ from reference positions");
                    st.lib_calls += 2;
                    st.nontrivial |= !cuts.is_empty();
                }
                Act::StdItem { kind, v, s } => {
                    let bytes = match kind {
                        0 => crate::item::std_bytes_u64(*v),
                        1 => crate::item::std_bytes_i64(*v as i64),
                        _ => crate::item::std_bytes_str(s),
                    };
                    let want = hll_coupon_ref(&bytes);
                    let mut sk = HllSketch::new(10, HllType::Hll4);
                    lib_call("hll.update(std item)", || match kind {
                        0 => sk.update(*v),
                        1 => sk.update(*v as i64),
                        2 => sk.update(s.as_str()),
                        _ => sk.update(s.clone()),
                    })?;
                    let stt = sk.verif_state();
                    check!(stt.coupons == vec![want], "C16.hll_coupon", "std item kind {kind} v {v} s {s:?}: coupons {:x?} want {want:x}", stt.coupons);
                    st.lib_calls += 1;
                }
                Act::Replicas { items, cuts_a, cuts_b } => {
                    let mut a = HllSketch::new(8, HllType::Hll6);
                    let mut b = HllSketch::new(8, HllType::Hll6);
                    let mut ta = ThetaSketch::builder().lg_k(5).build();
                    let mut tb = ThetaSketch::builder().lg_k(5).build();
                    for (i, it) in items.iter().enumerate() {
                        let d = unhex(it);
                        let ca = cuts_a.get(i).cloned().unwrap_or_default();
                        let cb = cuts_b.get(i).cloned().unwrap_or_default();
                        count_cut_kinds(st, d.len(), &ca);
                        count_cut_kinds(st, d.len(), &cb);
                        lib_call("replica update", || {
                            a.update(Chunks { data: &d, cuts: &ca });
                            b.update(Chunks { data: &d, cuts: &cb });
                            ta.update(Chunks { data: &d, cuts: &ca });
                            tb.update(Chunks { data: &d, cuts: &cb });
                        })?;
                        st.lib_calls += 4;
                    }
                    let ia = a.serialize();
                    let ib = b.serialize();
                    st.observe(&ia);
                    check!(ia == ib, "C16.replica_divergence", "HLL replicas fed the same logical items under different chunkings serialize differently");
                    let mut ea: Vec<u64> = ta.iter().collect();
                    let mut eb: Vec<u64> = tb.iter().collect();
                    ea.sort_unstable();
                    eb.sort_unstable();
                    check!(ea == eb && ta.theta64() == tb.theta64(), "C16.replica_divergence", "theta replicas diverge under different chunkings");
                    st.nontrivial = true;
                    st.shape_seq(5000 + items.len() as u64);
                }
            }
        }
        Ok(())
    }

    fn shrink_action(&self, a: &Act) -> Vec<Act> {
        let mut out = vec![];
        match a {
            Act::Digest { algo, seed, data, cuts } => {
                let d = unhex(data);
                if !cuts.is_empty() {
                    for i in 0..cuts.len() {
                        let mut c = cuts.clone();
                        c.remove(i);
                        out.push(Act::Digest { algo: *algo, seed: *seed, data: data.clone(), cuts: c });
                    }
                }
                if d.len() > 1 {
                    let nd = &d[..d.len() - 1];
                    let c: Vec<usize> = cuts.iter().copied().filter(|&x| x <= nd.len()).collect();
                    out.push(Act::Digest { algo: *algo, seed: *seed, data: hex(nd), cuts: c });
                }
                if *seed != 0 {
                    out.push(Act::Digest { algo: *algo, seed: 0, data: data.clone(), cuts: cuts.clone() });
                }
            }
            Act::Replicas { items, cuts_a, cuts_b } if items.len() > 1 => {
                for i in 0..items.len().min(8) {
                    let mut it = items.clone();
                    let mut ca = cuts_a.clone();
                    let mut cb = cuts_b.clone();
                    it.remove(i);
                    if i < ca.len() { ca.remove(i); }
                    if i < cb.len() { cb.remove(i); }
                    out.push(Act::Replicas { items: it, cuts_a: ca, cuts_b: cb });
                }
            }
            _ => {}
        }
        out
    }
}
