//! C03 — HllUnion equals the sketch of the combined streams, whatever the input shapes.
//!
//! System: 2-6 Workers (lg_k x type x mode), an optional ForeignWriter (array images with the
//! out-of-order flag set, updatable layout), 2-3 Aggregators holding an `HllUnion`, a root
//! Aggregator fed by the others' `to_sketch` results. At-least-once transport: reorder,
//! duplicate, loss/retransmit. Oracle: per aggregator, the set of contributions since `reset`.

use crate::check;
use crate::core::{RunStats, Scenario, Tier, Violation, lib_call};
use crate::model::hll::{HllModel, fold_coupons, fold_regs};
use crate::rng::Rng;
use crate::scen::c02::{gen_coupons, item_coupon};
use crate::speccodec::hll as codec;
use datasketches::common::NumStdDev;
use datasketches::hll::{HllSketch, HllType, HllUnion};
use serde::{Deserialize, Serialize};
use std::collections::BTreeSet;

pub struct C03;

#[derive(Clone, Serialize, Deserialize)]
pub struct WorkerCfg {
    pub lg_k: u8,
    pub ty: u8,
}

#[derive(Clone, Serialize, Deserialize)]
pub struct Cfg {
    pub workers: Vec<WorkerCfg>,
    /// lg_max_k of each aggregator; the last one is the root
    pub aggs: Vec<u8>,
}

#[derive(Clone, Serialize, Deserialize)]
#[serde(tag = "k")]
pub enum Act {
    WUpdate { w: u8, c: u32 },
    /// form 0: borrowed in-memory sketch handed to the aggregator(s) at once; 1: serialize() image
    /// put on the wire; 2: first passed through a throw-away HllUnion (out-of-order) then serialized
    Flush { w: u8, form: u8, to: Vec<u8> },
    /// ForeignWriter emits an array-mode image with the out-of-order flag set
    Foreign { lg_k: u8, ty: u8, coupons: Vec<u32>, to: Vec<u8> },
    Deliver { pick: u32, keep: bool },
    Drop { pick: u32 },
    AggUpdateValue { a: u8, v: u64 },
    AggReset { a: u8 },
    /// aggregator result (type t) handed to the root in memory
    ToRoot { a: u8, t: u8 },
    Check { a: u8 },
}

fn ty(t: u8) -> HllType {
    match t % 3 {
        0 => HllType::Hll4,
        1 => HllType::Hll6,
        _ => HllType::Hll8,
    }
}
const STDS: [NumStdDev; 3] = [NumStdDev::One, NumStdDev::Two, NumStdDev::Three];

/// What one contribution is, abstractly.
#[derive(Clone)]
enum Contribution {
    Sparse(BTreeSet<u32>),
    Dense { lg_k: u8, regs: Vec<u8> },
}

#[derive(Clone)]
struct AggModel {
    lg_max_k: u8,
    coupons: BTreeSet<u32>,
    dense: Option<(u8, Vec<u8>)>,
    nonempty_inputs: u64,
}

impl AggModel {
    fn new(lg_max_k: u8) -> Self {
        AggModel { lg_max_k, coupons: BTreeSet::new(), dense: None, nonempty_inputs: 0 }
    }
    fn add(&mut self, c: &Contribution) {
        match c {
            Contribution::Sparse(s) => {
                if !s.is_empty() {
                    self.nonempty_inputs += 1;
                }
                self.coupons.extend(s.iter().copied());
            }
            Contribution::Dense { lg_k, regs } => {
                if regs.iter().any(|&v| v > 0) {
                    self.nonempty_inputs += 1;
                } else {
                    return; // an all-zero array is an empty sketch: ignored by the statement
                }
                let new_lg = match &self.dense {
                    Some((l, _)) => (*l).min(*lg_k).min(self.lg_max_k),
                    None => (*lg_k).min(self.lg_max_k),
                };
                let mut acc = match &self.dense {
                    Some((_, r)) => fold_regs(r, new_lg),
                    None => vec![0u8; 1 << new_lg],
                };
                let add = fold_regs(regs, new_lg);
                for (a, b) in acc.iter_mut().zip(add) {
                    if b > *a {
                        *a = b;
                    }
                }
                self.dense = Some((new_lg, acc));
            }
        }
    }
    fn expected_lg_k(&self) -> u8 {
        self.dense.as_ref().map(|d| d.0).unwrap_or(self.lg_max_k)
    }
    fn expected_regs(&self) -> Vec<u8> {
        let lg = self.expected_lg_k();
        let mut r = fold_coupons(self.coupons.iter(), lg);
        if let Some((_, d)) = &self.dense {
            for (a, b) in r.iter_mut().zip(d) {
                if *b > *a {
                    *a = *b;
                }
            }
        }
        r
    }
    fn reset(&mut self) {
        self.coupons.clear();
        self.dense = None;
        self.nonempty_inputs = 0;
    }
}

struct Worker {
    sk: HllSketch,
    model: HllModel,
}

struct Agg {
    u: HllUnion,
    model: AggModel,
}

struct Msg {
    to: u8,
    bytes: Vec<u8>,
    what: Contribution,
}

fn contribution_of(sk: &HllSketch, model_coupons: &BTreeSet<u32>) -> Contribution {
    let s = sk.verif_state();
    if s.cur_mode < 2 {
        Contribution::Sparse(model_coupons.clone())
    } else {
        Contribution::Dense { lg_k: s.lg_config_k, regs: fold_coupons(model_coupons.iter(), s.lg_config_k) }
    }
}

fn check_agg(name: &str, ag: &Agg, st: &mut RunStats) -> Result<(), Violation> {
    let want_lg = ag.model.expected_lg_k();
    let got_lg = lib_call("HllUnion::lg_config_k", || ag.u.lg_config_k())?;
    let ue = lib_call("HllUnion::estimate", || ag.u.estimate())?;
    st.lib_calls += 2;
    st.observe_f64(ue);
    if ag.model.nonempty_inputs > 0 {
        check!(ue > 0.0, "C03.estimate_zero", "{name}: union of {} non-empty inputs reports estimate {ue}", ag.model.nonempty_inputs);
    }
    let mut first: Option<(f64, [f64; 3], [f64; 3])> = None;
    for t in 0..3u8 {
        let r = lib_call("HllUnion::to_sketch", || ag.u.to_sketch(ty(t)))?;
        let s = r.verif_state();
        let img = lib_call("HllSketch::serialize", || r.serialize())?;
        st.lib_calls += 3;
        check!(s.lg_config_k == got_lg, "C03.result_lg_k", "{name}: to_sketch({t}) lg_k {} but union reports {got_lg}", s.lg_config_k);
        if s.cur_mode < 2 {
            check!(ag.model.dense.is_none(), "C03.result_sparse_after_dense_input", "{name}: result is sparse although an array-mode input was merged");
            let mut got = s.coupons.clone();
            got.sort_unstable();
            let want: Vec<u32> = ag.model.coupons.iter().copied().collect();
            check!(got == want, "C03.union_coupons", "{name}: to_sketch({t}) holds {} coupons, union of inputs has {}", got.len(), want.len());
            check!(got_lg == ag.model.lg_max_k, "C03.union_lg_k", "{name}: sparse union lg_k {got_lg} want lg_max_k {}", ag.model.lg_max_k);
            // a union that still answers from a coupon list / set cannot hold more coupons than those modes do
            let n = want.len();
            let must_be = if n < 8 { 0 } else if got_lg < 8 || 4 * n > 3 * (1usize << (got_lg - 3)) { 2 } else { 1 };
            check!(s.cur_mode >= must_be, "C03.union_mode", "{name}: to_sketch({t}) holds {n} coupons in mode {} at lg_k {got_lg}; the promotion rule implies at least mode {must_be}", s.cur_mode);
        } else {
            check!(got_lg == want_lg, "C03.union_lg_k", "{name}: lg_config_k {got_lg}, expected min(lg_max_k {}, array inputs) = {want_lg}", ag.model.lg_max_k);
            let want = ag.model.expected_regs();
            if s.registers != want {
                let d = s.registers.iter().zip(&want).position(|(a, b)| a != b);
                return Err(Violation::new("C03.union_registers", format!("{name}: to_sketch({t}) registers differ from max-fold of inputs at slot {d:?}: got {:?} want {:?}", d.map(|i| s.registers[i]), d.map(|i| want[i]))));
            }
            // the result must be a consistent sketch of those registers (cached values rebuilt)
            let min = *want.iter().min().unwrap();
            let (exp_min, exp_num) = if s.tgt_type == 0 { (min, want.iter().filter(|&&v| v == min).count() as u32) } else { (0, want.iter().filter(|&&v| v == 0).count() as u32) };
            check!(s.cur_min == exp_min && s.num_at_cur_min == exp_num, "C03.result_cached_counts", "{name}: to_sketch({t}) cur_min {} num_at_cur_min/num_zeros {} but registers imply {exp_min} / {exp_num}", s.cur_min, s.num_at_cur_min);
            let kx = crate::model::hll::kxq_sum(&want);
            check!(((s.kxq0 + s.kxq1) - kx).abs() <= 1e-9 * kx, "C03.result_kxq", "{name}: to_sketch({t}) kxq0+kxq1 = {} but registers imply {kx}", s.kxq0 + s.kxq1);
            if s.tgt_type == 0 {
                let mut aux = s.aux.clone();
                aux.sort_unstable();
                let wa: Vec<(u32, u8)> = want.iter().enumerate().filter(|(_, v)| **v - min >= 15).map(|(i, v)| (i as u32, *v)).collect();
                check!(aux == wa, "C03.result_aux_map", "{name}: to_sketch(Hll4) aux map has {} entries, registers imply {}", aux.len(), wa.len());
            }
            if let Ok(d) = codec::decode(&img) {
                check!(d.registers == want, "C03.union_registers_image", "{name}: serialize() of to_sketch({t}) decodes to different registers");
            } else {
                st.probe("image_rejected_by_foreign_reader");
            }
        }
        let e = r.estimate();
        let lb = [r.lower_bound(STDS[0]), r.lower_bound(STDS[1]), r.lower_bound(STDS[2])];
        let ub = [r.upper_bound(STDS[0]), r.upper_bound(STDS[1]), r.upper_bound(STDS[2])];
        st.lib_calls += 7;
        match &first {
            None => first = Some((e, lb, ub)),
            Some((e0, lb0, ub0)) => {
                check!(e.to_bits() == e0.to_bits(), "C03.estimate_depends_on_type", "{name}: estimate of to_sketch(Hll4) {e0} vs to_sketch({t}) {e}");
                check!(lb.iter().zip(lb0).all(|(a, b)| a.to_bits() == b.to_bits()) && ub.iter().zip(ub0).all(|(a, b)| a.to_bits() == b.to_bits()), "C03.bounds_depend_on_type", "{name}: bounds of to_sketch(Hll4) {lb0:?}/{ub0:?} vs to_sketch({t}) {lb:?}/{ub:?}");
            }
        }
        check!(e.to_bits() == ue.to_bits(), "C03.estimate_differs_from_union", "{name}: union.estimate() {ue} but to_sketch({t}).estimate() {e}");
        if !(lb[1] <= e && e <= ub[1]) {
            st.note(format!("C01 side probe (HLL union result): lb {} est {} ub {}", lb[1], e, ub[1]));
        }
    }
    let ulb = ag.u.lower_bound(STDS[1]);
    let uub = ag.u.upper_bound(STDS[1]);
    if let Some((_, lb0, ub0)) = &first {
        check!(ulb.to_bits() == lb0[1].to_bits() && uub.to_bits() == ub0[1].to_bits(), "C03.bounds_differ_from_union", "{name}: union bounds {ulb}/{uub} vs to_sketch bounds {}/{}", lb0[1], ub0[1]);
    }
    Ok(())
}

impl Scenario for C03 {
    type Cfg = Cfg;
    type Act = Act;
    fn name(&self) -> &'static str {
        "c03_hll_union"
    }
    fn runs(&self, tier: Tier) -> u64 {
        match tier {
            Tier::Quick => 60_000,
            Tier::Thorough => 3_000_000,
        }
    }
    fn generate(&self, rng: &mut Rng, tier: Tier) -> (Cfg, Vec<Act>) {
        let hi = if tier == Tier::Quick { 11 } else { 14 };
        let nw = rng.range(2, 6) as usize;
        let workers: Vec<WorkerCfg> = (0..nw).map(|_| WorkerCfg { lg_k: rng.range(4, hi) as u8, ty: rng.below(3) as u8 }).collect();
        let na = rng.range(2, 3) as usize;
        let mut aggs: Vec<u8> = (0..na).map(|_| rng.range(4, hi) as u8).collect();
        if rng.chance(1, 2) {
            // two aggregators of equal lg_max_k so that "same set of contributions" is comparable
            aggs[1] = aggs[0];
        }
        aggs.push(rng.range(4, hi) as u8); // root
        let mut acts = vec![];
        // each worker gets a target mode: empty, list, set, array
        for (w, wc) in workers.iter().enumerate() {
            let k = 1usize << wc.lg_k;
            let n = match rng.below(5) {
                0 => 0,
                1 => rng.usize_below(8),
                2 => 8 + rng.usize_below((3 * k / 32).max(1)),
                _ => (k / 4 + rng.usize_below(3 * k)).min(5000),
            };
            if n > 0 {
                for c in gen_coupons(rng, wc.lg_k, n) {
                    acts.push(Act::WUpdate { w: w as u8, c });
                }
            }
        }
        // interleave flushes, deliveries, local ops
        let steps = 10 + rng.usize_below(40);
        let mut tail = vec![];
        for _ in 0..steps {
            let to: Vec<u8> = if rng.chance(1, 2) { vec![0, 1] } else { vec![rng.below(na as u64) as u8] };
            match rng.below(16) {
                0..=5 => tail.push(Act::Flush { w: rng.below(nw as u64) as u8, form: rng.below(3) as u8, to }),
                6..=9 => tail.push(Act::Deliver { pick: if rng.chance(1, 2) { 0 } else { rng.next_u32() }, keep: rng.chance(1, 3) }),
                10 => tail.push(Act::Drop { pick: rng.next_u32() }),
                11 => tail.push(Act::AggUpdateValue { a: rng.below(na as u64) as u8, v: rng.next_u64() }),
                12 => {
                    if rng.chance(1, 3) {
                        tail.push(Act::AggReset { a: rng.below(na as u64) as u8 })
                    } else {
                        let w = rng.below(nw as u64) as u8;
                        for c in gen_coupons(rng, workers[w as usize].lg_k, 30) {
                            tail.push(Act::WUpdate { w, c });
                        }
                    }
                }
                13 if hi >= 8 && rng.chance(1, 3) => {
                    // a sparse image from an early writer (lgArr byte zero: the reader derives the table
                    // size from the count), holding exactly a table's 75 % load limit of coupons, one
                    // more or one fewer; type ids 3..5 mark this form
                    let lg_k = rng.range(8, hi) as u8;
                    let lim = 3usize << rng.range(1, (lg_k - 5) as u64);
                    let want = (lim + rng.usize_below(3)).saturating_sub(1);
                    let mut setc: BTreeSet<u32> = BTreeSet::new();
                    while setc.len() < want {
                        setc.insert(((1 + rng.geometric(30)) << 26) | (rng.next_u32() & 0x3ff_ffff));
                    }
                    tail.push(Act::Foreign { lg_k, ty: 3 + rng.below(3) as u8, coupons: setc.into_iter().collect(), to });
                }
                13 => {
                    let lg_k = rng.range(4, hi) as u8;
                    let n = (1usize << lg_k) / 2 + rng.usize_below(1 << lg_k);
                    let mut coupons = gen_coupons(rng, lg_k, n.min(3000));
                    if rng.below(3) == 0 {
                        // Hll4 foreign images are kept free of aux exceptions (C13's business)
                        for c in coupons.iter_mut() {
                            *c = (*c & 0x3ff_ffff) | ((1 + (*c >> 26) % 12) << 26);
                        }
                        tail.push(Act::Foreign { lg_k, ty: 0, coupons, to });
                    } else {
                        tail.push(Act::Foreign { lg_k, ty: 1 + rng.below(2) as u8, coupons, to });
                    }
                }
                14 => tail.push(Act::ToRoot { a: rng.below(na as u64) as u8, t: rng.below(3) as u8 }),
                _ => tail.push(Act::Check { a: rng.below(na as u64 + 1) as u8 }),
            }
        }
        // interleave some of the worker updates into the tail as well
        if rng.chance(1, 2) && !acts.is_empty() {
            let cut = rng.usize_below(acts.len());
            let late: Vec<Act> = acts.split_off(cut);
            for a in late {
                let pos = rng.usize_below(tail.len() + 1);
                tail.insert(pos, a);
            }
        }
        acts.extend(tail);
        (Cfg { workers, aggs }, acts)
    }

    fn execute(&self, cfg: &Cfg, acts: &[Act], st: &mut RunStats) -> Result<(), Violation> {
        if cfg.workers.is_empty() || cfg.aggs.len() < 2 {
            return Ok(());
        }
        let mut workers: Vec<Worker> = cfg.workers.iter().map(|w| Worker { sk: HllSketch::new(w.lg_k.clamp(4, 21), ty(w.ty)), model: HllModel::new(w.lg_k.clamp(4, 21)) }).collect();
        let mut aggs: Vec<Agg> = cfg.aggs.iter().map(|&l| Agg { u: HllUnion::new(l.clamp(4, 21)), model: AggModel::new(l.clamp(4, 21)) }).collect();
        let root = aggs.len() - 1;
        let mut net: Vec<Msg> = vec![];
        let nw = workers.len();
        let na = root; // non-root aggregators

        fn deliver_bytes(ag: &mut Agg, bytes: &[u8], what: &Contribution, st: &mut RunStats) -> Result<(), Violation> {
            let sk = match lib_call("HllSketch::deserialize", || HllSketch::deserialize(bytes))? {
                Ok(s) => s,
                Err(e) => return Err(Violation::new("C03.valid_image_rejected", format!("aggregator could not deserialize an intact image: {e}"))),
            };
            lib_call("HllUnion::update", || ag.u.update(&sk))?;
            st.lib_calls += 2;
            ag.model.add(what);
            Ok(())
        }

        for act in acts {
            st.ticks += 1;
            match act {
                Act::WUpdate { w, c } => {
                    let w = &mut workers[*w as usize % nw];
                    let c = ((*c >> 26).clamp(1, 63) << 26) | (*c & 0x3ff_ffff);
                    lib_call("HllSketch::verif_update_with_coupon", || w.sk.verif_update_with_coupon(c))?;
                    w.model.offer(c);
                    st.lib_calls += 1;
                }
                Act::Flush { w, form, to } => {
                    let w = &workers[*w as usize % nw];
                    let what = contribution_of(&w.sk, &w.model.coupons);
                    st.shape_seq(match &what { Contribution::Sparse(s) => if s.is_empty() { 1 } else { 2 }, Contribution::Dense { .. } => 3 } + 10 * (*form as u64 % 3));
                    match form % 3 {
                        0 => {
                            for &a in to {
                                let ag = &mut aggs[a as usize % na];
                                lib_call("HllUnion::update", || ag.u.update(&w.sk))?;
                                st.lib_calls += 1;
                                ag.model.add(&what);
                                check_agg_cheap(ag, st)?;
                            }
                        }
                        f => {
                            let sk = if f == 2 {
                                // out-of-order in process: pass through a throw-away union
                                let mut tmp = HllUnion::new(w.sk.lg_config_k());
                                lib_call("HllUnion::update(tmp)", || tmp.update(&w.sk))?;
                                st.fault("ooo_via_union");
                                lib_call("HllUnion::to_sketch(tmp)", || tmp.to_sketch(w.sk.target_type()))?
                            } else {
                                w.sk.clone()
                            };
                            // the throw-away union may have promoted / kept the mode: recompute
                            let what2 = contribution_of(&sk, &w.model.coupons);
                            let bytes = lib_call("HllSketch::serialize", || sk.serialize())?;
                            st.lib_calls += 1;
                            for &a in to {
                                net.push(Msg { to: a % na as u8, bytes: bytes.clone(), what: what2.clone() });
                            }
                        }
                    }
                }
                Act::Foreign { lg_k, ty: t, coupons, to } => {
                    let lg_k = (*lg_k).clamp(4, 21);
                    let fixed: Vec<u32> = coupons.iter().map(|c| ((*c >> 26).clamp(1, 63) << 26) | (*c & 0x3ff_ffff)).collect();
                    if *t >= 3 {
                        let set: BTreeSet<u32> = fixed.iter().copied().collect();
                        let mode = if set.len() <= 7 { 0 } else { 1 };
                        if set.is_empty() || (mode == 1 && (lg_k < 8 || 4 * set.len() > 3 * (1usize << (lg_k - 3)))) {
                            continue;
                        }
                        let list: Vec<u32> = set.iter().copied().collect();
                        let mut bytes = codec::encode(lg_k, *t % 3, mode, &list, &[], false, 0.0, codec::Layout::Compact);
                        bytes[4] = 0;
                        st.fault("foreign_sparse_image_without_lg_arr");
                        for &a in to {
                            net.push(Msg { to: a % na as u8, bytes: bytes.clone(), what: Contribution::Sparse(set.clone()) });
                        }
                        continue;
                    }
                    let regs = fold_coupons(fixed.iter(), lg_k);
                    if regs.iter().all(|&v| v == 0) {
                        continue;
                    }
                    if *t % 3 == 0 {
                        let min = *regs.iter().min().unwrap();
                        if regs.iter().any(|&v| v - min >= 15) {
                            continue;
                        }
                    }
                    let bytes = codec::encode(lg_k, *t % 3, 2, &[], &regs, true, 0.0, codec::Layout::Updatable);
                    st.fault("foreign_ooo_image");
                    for &a in to {
                        net.push(Msg { to: a % na as u8, bytes: bytes.clone(), what: Contribution::Dense { lg_k, regs: regs.clone() } });
                    }
                }
                Act::Deliver { pick, keep } => {
                    if net.is_empty() {
                        continue;
                    }
                    let idx = *pick as usize % net.len();
                    if idx != 0 {
                        st.fault("reorder");
                    }
                    let (to, bytes, what) = { let m = &net[idx]; (m.to as usize, m.bytes.clone(), m.what.clone()) };
                    if *keep {
                        st.fault("duplicate_delivery");
                    } else {
                        net.remove(idx);
                    }
                    deliver_bytes(&mut aggs[to], &bytes, &what, st)?;
                    check_agg_cheap(&aggs[to], st)?;
                    st.nontrivial = true;
                }
                Act::Drop { .. } => {
                    if !net.is_empty() {
                        st.fault("loss_then_retransmit");
                    }
                }
                Act::AggUpdateValue { a, v } => {
                    let ag = &mut aggs[*a as usize % na];
                    lib_call("HllUnion::update_value", || ag.u.update_value(*v))?;
                    st.lib_calls += 1;
                    let mut s = BTreeSet::new();
                    s.insert(item_coupon(*v));
                    ag.model.add(&Contribution::Sparse(s));
                }
                Act::AggReset { a } => {
                    let ag = &mut aggs[*a as usize % na];
                    lib_call("HllUnion::reset", || ag.u.reset())?;
                    ag.model.reset();
                    st.fault("agg_reset");
                }
                Act::ToRoot { a, t } => {
                    let i = *a as usize % na;
                    let r = lib_call("HllUnion::to_sketch", || aggs[i].u.to_sketch(ty(*t)))?;
                    let s = r.verif_state();
                    // what the root receives is, abstractly, the aggregator's model state
                    let what = if s.cur_mode < 2 {
                        Contribution::Sparse(aggs[i].model.coupons.clone())
                    } else {
                        Contribution::Dense { lg_k: aggs[i].model.expected_lg_k(), regs: aggs[i].model.expected_regs() }
                    };
                    let rt = &mut aggs[root];
                    lib_call("HllUnion::update(root)", || rt.u.update(&r))?;
                    rt.model.add(&what);
                    st.lib_calls += 2;
                    check_agg_cheap(rt, st)?;
                }
                Act::Check { a } => {
                    let i = *a as usize % aggs.len();
                    check_agg(&format!("agg{i}"), &aggs[i], st)?;
                }
            }
        }
        // quiescence: retransmit until acked, then check everyone
        let pending = std::mem::take(&mut net);
        for m in pending {
            deliver_bytes(&mut aggs[m.to as usize], &m.bytes, &m.what, st)?;
        }
        for (i, ag) in aggs.iter().enumerate() {
            check_agg(&format!("agg{i}"), ag, st)?;
        }
        st.shape_seq(aggs[0].model.expected_lg_k() as u64);
        Ok(())
    }

    fn shrink_action(&self, a: &Act) -> Vec<Act> {
        match a {
            Act::Foreign { lg_k, ty, coupons, to } if coupons.len() > 1 => {
                let h = coupons.len() / 2;
                vec![
                    Act::Foreign { lg_k: *lg_k, ty: *ty, coupons: coupons[..h].to_vec(), to: to.clone() },
                    Act::Foreign { lg_k: *lg_k, ty: *ty, coupons: coupons[h..].to_vec(), to: to.clone() },
                ]
            }
            Act::Flush { w, form, to } if to.len() > 1 => vec![Act::Flush { w: *w, form: *form, to: vec![to[0]] }],
            Act::Flush { w, form, to } if *form != 0 => vec![Act::Flush { w: *w, form: 0, to: to.clone() }],
            _ => vec![],
        }
    }
}

/// cheap invariants after every delivery
fn check_agg_cheap(ag: &Agg, st: &mut RunStats) -> Result<(), Violation> {
    let e = lib_call("HllUnion::estimate", || ag.u.estimate())?;
    st.lib_calls += 1;
    st.observe_f64(e);
    if ag.model.nonempty_inputs > 0 {
        check!(e > 0.0, "C03.estimate_zero", "union of {} non-empty inputs reports estimate {e}", ag.model.nonempty_inputs);
    }
    let lg = ag.u.lg_config_k();
    if ag.model.dense.is_some() {
        check!(lg == ag.model.expected_lg_k(), "C03.union_lg_k", "lg_config_k {lg}, expected {} (lg_max_k {})", ag.model.expected_lg_k(), ag.model.lg_max_k);
    }
    Ok(())
}
