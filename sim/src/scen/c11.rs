//! C11 — serialize -> deserialize is lossless for every sketch family.
//!
//! System: for one family per run a **primary** node and a **twin** that receive the identical
//! operation sequence (updates, merges with peers built on the fly). The primary checkpoints with
//! the framed discipline (len|image|crc32, two generations, harness WAL), is crashed at PRNG-chosen
//! points (unsynced newest generation torn or surviving) and restarted: newest verifiable
//! generation -> real `deserialize` -> WAL replay. The twin never crashes. After every operation
//! that follows a restart every public accessor of primary and twin must be equal (floats bit for
//! bit) and their images byte-identical where the layout is canonical, equal as decoded abstract
//! state where it is not.

use crate::check;
use crate::core::{RunStats, Scenario, Tier, Violation, lib_call};
use crate::rng::Rng;
use crate::scen::c02::gen_coupons;
use crate::scen::c05::gen_row_cols;
use crate::scen::c07::{Sk as FiSk, frame, unframe};
use crate::scen::c08::{Cm, type_max};
use crate::speccodec as sc;
use datasketches::bloom::{BloomFilter, BloomFilterBuilder};
use datasketches::common::NumStdDev;
use datasketches::cpc::{CpcSketch, CpcUnion, CpcWrapper};
use datasketches::frequencies::ErrorType;
use datasketches::hll::{HllSketch, HllType, HllUnion};
use datasketches::tdigest::TDigestMut;
use datasketches::theta::{CompactThetaSketch, ThetaSketch};
use serde::{Deserialize, Serialize};

pub struct C11;

/// C17's extremes scenario: same executor, generator biased to the documented configuration extremes.
pub struct C17Extremes;

#[derive(Clone, Serialize, Deserialize)]
pub struct Cfg {
    pub fam: String,
    pub a: u64,
    pub b: u64,
    pub seed: u64,
}

#[derive(Clone, Serialize, Deserialize)]
#[serde(tag = "k")]
pub enum Act {
    /// pre-hashed inputs (HLL coupons, CPC row_cols, theta hashes) or item ids / value bits
    Update { vals: Vec<u64>, w: u64 },
    /// merge / union with a peer built from these values
    Merge { vals: Vec<u64>, b: u64 },
    /// family-specific local operation (theta trim, Bloom invert, Count-Min halve / decay, ...)
    Local { op: u8 },
    /// HLL: staircase over every slot up to value `cols` (with a sprinkle of much larger values);
    /// CPC: column-major fill of `cols` columns; a compact action for large-lg_k spot runs
    Fill { cols: u8, seed: u64 },
    Checkpoint { sync: bool },
    Crash { torn: bool },
    /// compare now (also done after every operation once a restart has happened)
    Compare,
}

const FAMS: &[&str] = &["hll", "hll_union", "cpc", "cpc_union", "theta", "bloom", "cm", "fi", "td"];
const STDS: [NumStdDev; 3] = [NumStdDev::One, NumStdDev::Two, NumStdDev::Three];

fn ty(t: u64) -> HllType {
    match t % 3 {
        0 => HllType::Hll4,
        1 => HllType::Hll6,
        _ => HllType::Hll8,
    }
}

/// One replica (primary or twin) of the family under test.
enum Node {
    Hll(HllSketch),
    HllU(HllUnion, u8),
    Cpc(CpcSketch),
    CpcU(CpcUnion),
    Theta(ThetaSketch),
    Bloom(BloomFilter),
    Cm(Cm, u8, u64),
    Fi(FiSk, u8),
    Td(TDigestMut),
}

fn fix_coupon(v: u64) -> u32 {
    ((v as u32 >> 26).clamp(1, 63) << 26) | (v as u32 & 0x3ff_ffff)
}

fn build_hll_peer(vals: &[u64], b: u64) -> HllSketch {
    let mut o = HllSketch::new((4 + b % 10) as u8, ty(b >> 8));
    for &v in vals {
        o.verif_update_with_coupon(fix_coupon(v));
    }
    o
}

fn build_cpc_peer(vals: &[u64], b: u64) -> CpcSketch {
    let lg = (4 + b % 8) as u8;
    let mut o = CpcSketch::new(lg);
    for &v in vals {
        let rc = v as u32 & (((1u32 << lg) - 1) << 6 | 63);
        if rc != u32::MAX {
            o.verif_row_col_update(rc);
        }
    }
    o
}

impl Node {
    fn new(cfg: &Cfg) -> Node {
        match cfg.fam.as_str() {
            "hll" => Node::Hll(HllSketch::new((cfg.a as u8).clamp(4, 21), ty(cfg.b))),
            "hll_union" => Node::HllU(HllUnion::new((cfg.a as u8).clamp(4, 21)), (cfg.b % 3) as u8),
            "cpc" => Node::Cpc(CpcSketch::new((cfg.a as u8).clamp(4, 22))),
            "cpc_union" => Node::CpcU(CpcUnion::new((cfg.a as u8).clamp(4, 16))),
            "theta" => {
                let rf = match cfg.b % 4 {
                    0 => datasketches::common::ResizeFactor::X1,
                    1 => datasketches::common::ResizeFactor::X2,
                    2 => datasketches::common::ResizeFactor::X4,
                    _ => datasketches::common::ResizeFactor::X8,
                };
                Node::Theta(ThetaSketch::builder().lg_k((cfg.a as u8).clamp(5, 17)).resize_factor(rf).sampling_probability([1.0f32, 1.0, 0.3, 0.01][(cfg.b / 4 % 4) as usize]).build())
            }
            "bloom" => Node::Bloom(BloomFilterBuilder::with_size(cfg.a.clamp(1, 1 << 18), (cfg.b as u16).clamp(1, 32)).seed(cfg.seed).build()),
            "cm" => {
                let t = (cfg.seed % 8) as u8;
                Node::Cm(Cm::new(t, (cfg.a as u8).clamp(1, 8), (cfg.b as u32).clamp(3, 512), 9001), t, 0)
            }
            "fi" => Node::Fi(FiSk::new((cfg.b % 3) as u8, (cfg.a as u8).min(11)), (cfg.b % 3) as u8),
            _ => Node::Td(TDigestMut::new((cfg.a as u16).clamp(10, 1000))),
        }
    }

    fn update(&mut self, vals: &[u64], w: u64) {
        match self {
            Node::Hll(s) => vals.iter().for_each(|&v| s.verif_update_with_coupon(fix_coupon(v))),
            Node::HllU(u, _) => vals.iter().for_each(|&v| u.update_value(v)),
            Node::Cpc(s) => {
                let lg = s.lg_k();
                for &v in vals {
                    let rc = v as u32 & (((1u32 << lg) - 1) << 6 | 63);
                    if rc != u32::MAX {
                        s.verif_row_col_update(rc);
                    }
                }
            }
            Node::CpcU(u) => {
                let o = build_cpc_peer(vals, w);
                u.update(&o);
            }
            Node::Theta(s) => vals.iter().for_each(|&v| if w % 2 == 0 { s.update(v) } else { s.verif_insert_hash(v & (i64::MAX as u64)) }),
            Node::Bloom(f) => vals.iter().for_each(|&v| f.insert(v)),
            Node::Cm(s, t, total) => {
                let max = type_max(*t);
                for &v in vals {
                    let w = 1 + w % 3;
                    if *total + w > max {
                        break;
                    }
                    *total += w;
                    s.update(v % 300, w);
                }
            }
            Node::Fi(s, _) => vals.iter().for_each(|&v| s.update((v % 700) as u32, 1 + w % 5)),
            Node::Td(d) => vals.iter().for_each(|&v| d.update(f64::from_bits(v))),
        }
    }

    fn fill(&mut self, cols: u8, seed: u64) {
        let skip = |i: u32, c: u32| (i.wrapping_mul(2654435761) ^ c.wrapping_mul(40503) ^ (seed as u32)) % 64 == 0;
        match self {
            Node::Hll(s) => {
                let k = 1u32 << s.lg_config_k();
                for v in 1..=(cols as u32).min(40) {
                    for i in 0..k {
                        let slot = i.wrapping_mul(0x9E37_79B1) & (k - 1);
                        if skip(slot, v) {
                            continue;
                        }
                        s.verif_update_with_coupon((v << 26) | slot);
                        if (slot ^ seed as u32) % 512 == 0 {
                            s.verif_update_with_coupon(((v + 17 + slot % 7).min(63) << 26) | slot);
                        }
                    }
                }
            }
            Node::Theta(s) => {
                let n = 66_000 + (cols as u64 % 4) * 15_000 + seed % 15_000;
                let mut r = Rng::new(seed);
                for _ in 0..n {
                    s.verif_insert_hash(r.next_u64() & (i64::MAX as u64));
                }
            }
            Node::Cpc(s) => {
                let k = 1u32 << s.lg_k();
                // up to 59 whole columns at small lg_k: C stays below (27/8 + 56) K, the last window position
                let near_full = cols >= 56 && s.lg_k() <= 6;
                for c in 0..(cols as u32).min(if s.lg_k() <= 6 { 59 } else { 40 }) {
                    for i in 0..k {
                        let row = i.wrapping_mul(0x9E37_79B1) & (k - 1);
                        // (almost no holes in a nearly full matrix: the last window position needs C >= 58.375 K)
                        let hole = if near_full { (row.wrapping_mul(2654435761) ^ c.wrapping_mul(40503) ^ (seed as u32)) % 400 == 0 } else { skip(row, c) };
                        if !hole {
                            s.verif_row_col_update((row << 6) | c);
                        }
                    }
                }
            }
            _ => {}
        }
    }

    fn merge(&mut self, vals: &[u64], b: u64) {
        match self {
            Node::Hll(_) | Node::Cpc(_) | Node::Theta(_) => self.update(vals, b),
            Node::HllU(u, _) => {
                let o = build_hll_peer(vals, b);
                u.update(&o);
            }
            Node::CpcU(u) => {
                let o = build_cpc_peer(vals, b);
                u.update(&o);
            }
            Node::Bloom(f) => {
                let mut o = BloomFilterBuilder::with_size(f.capacity() as u64, f.num_hashes()).seed(f.seed()).build();
                for &v in vals {
                    o.insert(v);
                }
                if b % 4 == 0 {
                    f.intersect(&o);
                } else {
                    f.union(&o);
                }
            }
            Node::Cm(s, t, total) => {
                let max = type_max(*t);
                let mut o = match s {
                    Cm::U8(x) => Cm::new(*t, x.num_hashes(), x.num_buckets(), 9001),
                    Cm::U16(x) => Cm::new(*t, x.num_hashes(), x.num_buckets(), 9001),
                    Cm::U32(x) => Cm::new(*t, x.num_hashes(), x.num_buckets(), 9001),
                    Cm::U64(x) => Cm::new(*t, x.num_hashes(), x.num_buckets(), 9001),
                    Cm::I8(x) => Cm::new(*t, x.num_hashes(), x.num_buckets(), 9001),
                    Cm::I16(x) => Cm::new(*t, x.num_hashes(), x.num_buckets(), 9001),
                    Cm::I32(x) => Cm::new(*t, x.num_hashes(), x.num_buckets(), 9001),
                    Cm::I64(x) => Cm::new(*t, x.num_hashes(), x.num_buckets(), 9001),
                };
                let mut ot = 0u64;
                for &v in vals {
                    if *total + ot + 1 > max {
                        break;
                    }
                    ot += 1;
                    o.update(v % 300, 1);
                }
                *total += ot;
                s.merge(&o);
            }
            Node::Fi(s, kind) => {
                let mut o = FiSk::new(*kind, (3 + b % 7) as u8);
                for &v in vals {
                    o.update((v % 700) as u32, 1 + (v >> 40) % 3);
                }
                s.merge(&o);
            }
            Node::Td(d) => {
                let mut o = TDigestMut::new((10 + b % 300) as u16);
                for &v in vals {
                    o.update(f64::from_bits(v));
                }
                d.merge(&o);
            }
        }
    }

    fn local(&mut self, op: u8) {
        match self {
            Node::Theta(s) => {
                if op % 4 == 0 {
                    s.reset()
                } else {
                    s.trim()
                }
            }
            Node::Bloom(f) => {
                if op % 4 == 0 {
                    f.reset()
                } else {
                    f.invert()
                }
            }
            Node::Cm(s, t, total) if *t < 4 => {
                if op % 2 == 0 {
                    s.halve();
                } else {
                    s.decay(0.75);
                }
                *total = s.total();
            }
            Node::HllU(u, _) if op % 8 == 0 => u.reset(),
            Node::Fi(s, _) if op % 8 == 0 => {
                if let FiSk::I(x) = s {
                    x.reset()
                }
            }
            _ => {}
        }
    }

    /// the image a user would checkpoint
    fn image(&mut self, var: u64) -> Vec<u8> {
        match self {
            Node::Hll(s) => s.serialize(),
            Node::HllU(u, t) => u.to_sketch(ty(*t as u64)).serialize(),
            Node::Cpc(s) => s.serialize(),
            Node::CpcU(u) => u.to_sketch().serialize(),
            Node::Theta(s) => {
                let c = s.compact(var & 1 != 0);
                if var & 2 != 0 { c.serialize_compressed() } else { c.serialize() }
            }
            Node::Bloom(f) => f.serialize(),
            Node::Cm(s, ..) => s.serialize(),
            Node::Fi(s, _) => s.serialize(),
            Node::Td(d) => d.serialize(),
        }
    }

    /// restore a replica of the same kind from an image (the protocol a user would follow)
    fn restore(&self, cfg: &Cfg, img: &[u8]) -> Result<Node, String> {
        let e = |e: datasketches::error::Error| e.to_string();
        Ok(match self {
            Node::Hll(_) => Node::Hll(HllSketch::deserialize(img).map_err(e)?),
            Node::HllU(_, t) => {
                let s = HllSketch::deserialize(img).map_err(e)?;
                let mut u = HllUnion::new((cfg.a as u8).clamp(4, 21));
                u.update(&s);
                Node::HllU(u, *t)
            }
            Node::Cpc(_) => Node::Cpc(CpcSketch::deserialize(img).map_err(e)?),
            Node::CpcU(_) => {
                let s = CpcSketch::deserialize(img).map_err(e)?;
                let mut u = CpcUnion::new((cfg.a as u8).clamp(4, 16));
                u.update(&s);
                Node::CpcU(u)
            }
            Node::Theta(_) => return Err("theta has no restorable mutable form".into()),
            Node::Bloom(_) => Node::Bloom(BloomFilter::deserialize(img).map_err(e)?),
            Node::Cm(_, t, _) => {
                let c = Cm::deserialize(*t, img, 9001)?;
                let total = c.total();
                Node::Cm(c, *t, total)
            }
            Node::Fi(_, k) => Node::Fi(FiSk::deserialize(*k, img)?, *k),
            Node::Td(_) => Node::Td(TDigestMut::deserialize(img, false).map_err(e)?),
        })
    }

    /// every public accessor, floats as bit patterns
    fn observe(&mut self) -> Vec<(String, u64)> {
        let mut o: Vec<(String, u64)> = vec![];
        fn f(o: &mut Vec<(String, u64)>, n: &str, v: f64) {
            o.push((n.to_string(), v.to_bits()));
        }
        match self {
            Node::Hll(s) => {
                f(&mut o, "estimate", s.estimate());
                for sd in STDS {
                    f(&mut o, "lower_bound", s.lower_bound(sd));
                    f(&mut o, "upper_bound", s.upper_bound(sd));
                }
                o.push(("is_empty".into(), s.is_empty() as u64));
                o.push(("lg_config_k".into(), s.lg_config_k() as u64));
                o.push(("target_type".into(), s.target_type() as u64));
            }
            Node::HllU(u, _) => {
                // a union restored from its result sketch is a *different history*; what must agree
                // is the result it hands out
                for t in 0..3u64 {
                    let s = u.to_sketch(ty(t));
                    let st = s.verif_state();
                    o.push((format!("to_sketch({t}).mode"), st.cur_mode as u64));
                    let mut c = st.coupons.clone();
                    c.sort_unstable();
                    o.push((format!("to_sketch({t}).coupons"), crate::rng::fnv1a(&c.iter().flat_map(|x| x.to_le_bytes()).collect::<Vec<u8>>())));
                    o.push((format!("to_sketch({t}).registers"), crate::rng::fnv1a(&st.registers)));
                }
                o.push(("lg_config_k".into(), u.lg_config_k() as u64));
                o.push(("is_empty".into(), u.is_empty() as u64));
            }
            Node::Cpc(s) => {
                f(&mut o, "estimate", s.estimate());
                for sd in STDS {
                    f(&mut o, "lower_bound", s.lower_bound(sd));
                    f(&mut o, "upper_bound", s.upper_bound(sd));
                }
                o.push(("num_coupons".into(), s.num_coupons() as u64));
                o.push(("validate".into(), s.validate() as u64));
                o.push(("is_empty".into(), s.is_empty() as u64));
                o.push(("matrix".into(), crate::rng::fnv1a(&s.verif_bit_matrix().iter().flat_map(|x| x.to_le_bytes()).collect::<Vec<u8>>())));
            }
            Node::CpcU(u) => {
                let s = u.to_sketch();
                o.push(("num_coupons".into(), u.num_coupons() as u64));
                o.push(("lg_k".into(), u.lg_k() as u64));
                o.push(("matrix".into(), crate::rng::fnv1a(&s.verif_bit_matrix().iter().flat_map(|x| x.to_le_bytes()).collect::<Vec<u8>>())));
                o.push(("result.estimate".into(), s.estimate().to_bits()));
                for sd in STDS {
                    o.push(("result.lower_bound".into(), s.lower_bound(sd).to_bits()));
                    o.push(("result.upper_bound".into(), s.upper_bound(sd).to_bits()));
                }
            }
            Node::Theta(s) => {
                // the update sketch has no restorable form; its accessors are exercised (C17) and
                // must agree with the compact form's (checked in theta_degenerate)
                f(&mut o, "estimate", s.estimate());
                f(&mut o, "theta", s.theta());
                o.push(("theta64".into(), s.theta64()));
                o.push(("is_empty".into(), s.is_empty() as u64));
                o.push(("is_estimation_mode".into(), s.is_estimation_mode() as u64));
                o.push(("num_retained".into(), s.num_retained() as u64));
                o.push(("lg_k".into(), s.lg_k() as u64));
                for sd in STDS {
                    f(&mut o, "lower_bound", s.lower_bound(sd));
                    f(&mut o, "upper_bound", s.upper_bound(sd));
                }
            }
            Node::Bloom(b) => {
                o.push(("bits_used".into(), b.bits_used()));
                o.push(("capacity".into(), b.capacity() as u64));
                o.push(("num_hashes".into(), b.num_hashes() as u64));
                o.push(("seed".into(), b.seed()));
                o.push(("is_empty".into(), b.is_empty() as u64));
                let mut h = 0u64;
                for i in 0..400u64 {
                    h = h.rotate_left(1) ^ b.contains(&i) as u64;
                }
                o.push(("contains(0..400)".into(), h));
                f(&mut o, "load_factor", b.load_factor());
                f(&mut o, "estimated_fpp", b.estimated_fpp());
            }
            Node::Cm(s, ..) => {
                o.push(("total_weight".into(), s.total()));
                for i in 0..300u64 {
                    o.push((format!("estimate({i})"), s.estimate(i)));
                }
                for i in 0..20u64 {
                    o.push((format!("upper_bound({i})"), s.upper_bound(i)));
                    o.push((format!("lower_bound({i})"), s.lower_bound(i)));
                }
            }
            Node::Fi(s, _) => {
                o.push(("total_weight".into(), s.total_weight()));
                o.push(("maximum_error".into(), s.maximum_error()));
                o.push(("num_active_items".into(), s.num_active() as u64));
                for i in 0..700u32 {
                    let (lb, e, ub) = s.bounds(i);
                    o.push((format!("bounds({i})"), lb ^ e.rotate_left(21) ^ ub.rotate_left(42)));
                }
                for et in [ErrorType::NoFalsePositives, ErrorType::NoFalseNegatives] {
                    let mut rows: Vec<(Option<u32>, u64, u64, u64)> = s.rows(et, 700);
                    rows.sort();
                    let mut h = 0u64;
                    for r in rows {
                        h = crate::rng::mix(h, r.0.unwrap_or(9999) as u64 ^ r.1.rotate_left(13) ^ r.2.rotate_left(29) ^ r.3.rotate_left(47));
                    }
                    o.push((format!("frequent_items({et:?})"), h));
                }
            }
            Node::Td(d) => {
                o.push(("total_weight".into(), d.total_weight()));
                o.push(("k".into(), d.k() as u64));
                o.push(("is_empty".into(), d.is_empty() as u64));
                if let (Some(mn), Some(mx)) = (d.min_value(), d.max_value()) {
                    o.push(("min".into(), mn.to_bits()));
                    o.push(("max".into(), mx.to_bits()));
                    for i in 0..=40 {
                        let v = mn + (mx - mn) * i as f64 / 40.0;
                        if v.is_finite() {
                            o.push((format!("rank[{i}]"), d.rank(v).unwrap_or(f64::NAN).to_bits()));
                        }
                        o.push((format!("quantile[{i}]"), d.quantile(i as f64 / 40.0).unwrap_or(f64::NAN).to_bits()));
                    }
                }
            }
        }
        o
    }
}

/// Image comparison: byte-identical where canonical, decoded abstract state otherwise.
fn images_equivalent(fam: &str, kind: u8, a: &[u8], b: &[u8]) -> Result<(), String> {
    if a == b {
        return Ok(());
    }
    match fam {
        "hll_union" => {
            // a union restored from its result is a different history: HIP accumulator and
            // out-of-order flag may legitimately differ; the registers / coupons may not
            let (x, y) = (sc::hll::decode(a)?, sc::hll::decode(b)?);
            let (mut cx, mut cy) = (x.coupons.clone(), y.coupons.clone());
            cx.sort_unstable();
            cy.sort_unstable();
            if x.lg_k == y.lg_k && x.mode == y.mode && x.tgt == y.tgt && cx == cy && x.registers == y.registers { Ok(()) } else { Err("decoded union results differ in lg_k / mode / coupons / registers".into()) }
        }
        "hll" => {
            let (x, y) = (sc::hll::decode(a)?, sc::hll::decode(b)?);
            // Hll4 aux section order and list coupon order depend on table layout / arrival order
            if x.mode == 2 && x.tgt == 0 || x.mode == 0 {
                let norm = |mut i: sc::hll::HllImage| {
                    i.aux.sort_unstable();
                    i.coupons.sort_unstable();
                    i
                };
                let (mut x, mut y) = (norm(x), norm(y));
                // the lgArr byte of an array image is not state
                if x.mode == 2 {
                    x.lg_arr = 0;
                    y.lg_arr = 0;
                }
                if x == y { Ok(()) } else { Err("decoded HLL states differ".into()) }
            } else {
                Err(format!("canonical HLL layout (mode {}, type {}) but bytes differ", x.mode, x.tgt))
            }
        }
        "fi" => {
            let (mut x, mut y) = (sc::simple::fi_decode(a, kind == 2)?, sc::simple::fi_decode(b, kind == 2)?);
            let sort = |i: &mut sc::simple::FiImage| {
                let mut p: Vec<(Vec<u8>, u64)> = i.items.iter().zip(&i.counts).map(|(it, c)| (match it { sc::simple::FiItem::Long(v) => v.to_le_bytes().to_vec(), sc::simple::FiItem::Str(s) => s.clone() }, *c)).collect();
                p.sort();
                p
            };
            let (px, py) = (sort(&mut x), sort(&mut y));
            if px == py && x.stream_weight == y.stream_weight && x.offset == y.offset && x.lg_max == y.lg_max && x.empty == y.empty {
                Ok(())
            } else {
                Err(format!("decoded Frequent Items states differ: weight {} vs {}, offset {} vs {}, {} vs {} items, lg_cur {} vs {}", x.stream_weight, y.stream_weight, x.offset, y.offset, px.len(), py.len(), x.lg_cur, y.lg_cur))
            }
        }
        _ => Err(format!("canonical layout but bytes differ ({} vs {} bytes; first difference at {:?})", a.len(), b.len(), a.iter().zip(b).position(|(p, q)| p != q))),
    }
}

fn theta_degenerate(sk: &ThetaSketch, var: u64, st: &mut RunStats) -> Result<(), Violation> {
    let c = lib_call("ThetaSketch::compact", || sk.compact(var & 1 != 0))?;
    let img = lib_call("CompactThetaSketch::serialize*", || if var & 2 != 0 { c.serialize_compressed() } else { c.serialize() })?;
    st.observe(&img);
    let r = match lib_call("CompactThetaSketch::deserialize", || CompactThetaSketch::deserialize(&img))? {
        Ok(r) => r,
        Err(e) => return Err(Violation::new("C11.own_image_rejected", format!("theta: own image rejected: {e}"))),
    };
    st.lib_calls += 3;
    let same = c.iter().eq(r.iter()) && c.theta64() == r.theta64() && c.is_empty() == r.is_empty() && c.is_ordered() == r.is_ordered() && c.seed_hash() == r.seed_hash() && c.estimate().to_bits() == r.estimate().to_bits() && c.num_retained() == r.num_retained() && c.is_estimation_mode() == r.is_estimation_mode();
    check!(same, "C11.theta_roundtrip", "compact theta sketch ({} entries, theta {:#x}, ordered {}, compressed {}) differs after the round trip: {} entries, theta {:#x}, empty {} vs {}, ordered {}", c.num_retained(), c.theta64(), c.is_ordered(), var & 2 != 0, r.num_retained(), r.theta64(), c.is_empty(), r.is_empty(), r.is_ordered());
    for sd in STDS {
        check!(c.lower_bound(sd).to_bits() == r.lower_bound(sd).to_bits() && c.upper_bound(sd).to_bits() == r.upper_bound(sd).to_bits(), "C11.theta_roundtrip", "bounds differ after the round trip");
    }
    for compressed in [false, true] {
        let (x, y) = if compressed { (c.serialize_compressed(), r.serialize_compressed()) } else { (c.serialize(), r.serialize()) };
        check!(x == y, "C11.theta_reserialize", "re-serialized (compressed {compressed}) image is not byte-identical");
    }
    if var & 2 != 0 && img.get(1) == Some(&4) {
        st.probe("theta_v4_roundtrip");
        let bits = img[3];
        st.probe(if bits < 16 { "theta_v4_bits_lt16" } else if bits < 40 { "theta_v4_bits_16_39" } else { "theta_v4_bits_ge40" });
    }
    Ok(())
}

impl Scenario for C11 {
    type Cfg = Cfg;
    type Act = Act;
    fn name(&self) -> &'static str {
        "c11_roundtrip"
    }
    fn runs(&self, tier: Tier) -> u64 {
        match tier {
            Tier::Quick => 40_000,
            Tier::Thorough => 2_000_000,
        }
    }
    fn generate(&self, rng: &mut Rng, tier: Tier) -> (Cfg, Vec<Act>) {
        let fam = *rng.pick(FAMS);
        let big = tier == Tier::Thorough;
        let (a, b) = match fam {
            "hll" | "hll_union" => (match rng.below(10) { 0 => 4, _ => rng.range(4, if big { 14 } else { 11 }) }, rng.below(3)),
            "cpc" | "cpc_union" => (match rng.below(10) { 0 => 4, _ => rng.range(4, if big { 12 } else { 10 }) }, 0),
            "theta" => (rng.range(5, 11), rng.below(16)),
            "bloom" => (rng.range(1, 3000), rng.range(1, 9)),
            "cm" => (rng.range(1, 6), rng.range(3, 60)),
            "fi" => (if rng.chance(1, 8) { rng.range(0, 3) } else { rng.range(3, if big { 11 } else { 8 }) }, rng.below(3)),
            _ => (*rng.pick(&[10u64, 25, 100, 200]), 0),
        };
        let cfg = Cfg { fam: fam.to_string(), a, b, seed: rng.next_u64() };
        let mut acts = vec![];
        let steps = 4 + rng.usize_below(24);
        let shape = rng.below(10) as u8;
        if rng.chance(1, 4) {
            // tiny-state prologue: images of sketches holding zero, one or two inputs (the empty,
            // single-item and single-value forms) are checkpointed and restored before anything else
            let n = rng.usize_below(3);
            let v: Vec<u64> = match fam {
                "hll" => gen_coupons(rng, a as u8, n.max(1)).into_iter().take(n).map(|c| c as u64).collect(),
                "cpc" | "cpc_union" => gen_row_cols(rng, a as u8, n.max(1), true).into_iter().take(n).map(|c| c as u64).collect(),
                "td" => (0..n).map(|i| (i as f64 + 0.25).to_bits()).collect(),
                _ => (0..n).map(|_| rng.below(40)).collect(),
            };
            acts.push(Act::Update { vals: v, w: rng.next_u64() });
            acts.push(Act::Checkpoint { sync: true });
            acts.push(Act::Crash { torn: false });
        }
        if fam == "cpc" && rng.chance(1, 60) {
            // spot run: a small sketch filled column by column up to the last window positions (offsets 50..56)
            let cfg = Cfg { fam: fam.to_string(), a: rng.range(4, 6), b, seed: cfg.seed };
            let acts = vec![Act::Fill { cols: rng.range(54, 59) as u8, seed: rng.next_u64() }, Act::Compare, Act::Checkpoint { sync: true }, Act::Crash { torn: false }, Act::Compare];
            return (cfg, acts);
        }
        if fam == "theta" && rng.chance(1, 150) {
            // spot run with more than 65535 retained entries (three-byte entry count in the compressed form)
            let cfg = Cfg { fam: fam.to_string(), a: *rng.pick(&[16u64, 17]), b, seed: cfg.seed };
            return (cfg, vec![Act::Fill { cols: rng.range(0, 3) as u8, seed: rng.next_u64() }, Act::Compare, Act::Update { vals: vec![1, 2, 3], w: 0 }, Act::Compare]);
        }
        for _ in 0..steps {
            let n = match rng.below(5) {
                0 => rng.usize_below(9),
                1 => rng.usize_below(80),
                _ => rng.usize_below(match fam { "hll" | "cpc" | "theta" => (6usize << a.min(12)).min(if big { 30_000 } else { 5_000 }), "td" => 3000, _ => 600 }),
            };
            let mut vals = |rng: &mut Rng, n: usize| -> Vec<u64> {
                match fam {
                    "hll" => gen_coupons(rng, a as u8, n.max(1)).into_iter().map(|c| c as u64).collect(),
                    "cpc" => gen_row_cols(rng, a as u8, n.max(1), true).into_iter().map(|c| c as u64).collect(),
                    "cpc_union" => gen_row_cols(rng, 10, n.min(3000).max(1), true).into_iter().map(|c| c as u64).collect(),
                    "theta" => {
                        let base = rng.next_u64() >> rng.range(1, 40);
                        let width = rng.range(1, 62);
                        (0..n).map(|_| base.wrapping_add(rng.next_u64() >> (64 - width))).collect()
                    }
                    "td" => (0..n).map(|i| crate::scen::c10::gen_value(rng, shape, i as u64, n as u64, 1.0).to_bits()).collect(),
                    _ => (0..n).map(|_| if rng.chance(1, 3) { rng.below(60) } else { rng.next_u64() }).collect(),
                }
            };
            match rng.below(20) {
                0..=8 => {
                    let v = vals(rng, n);
                    acts.push(Act::Update { vals: v, w: rng.next_u64() })
                }
                9..=11 => {
                    let v: Vec<u64> = match fam {
                        "hll_union" => gen_coupons(rng, 10, n.min(3000).max(1)).into_iter().map(|c| c as u64).collect(),
                        "cpc_union" => gen_row_cols(rng, 10, n.min(3000).max(1), true).into_iter().map(|c| c as u64).collect(),
                        _ => vals(rng, n.min(2000)),
                    };
                    acts.push(Act::Merge { vals: v, b: rng.next_u64() })
                }
                12 => acts.push(Act::Local { op: rng.next_u32() as u8 }),
                13..=15 => acts.push(Act::Checkpoint { sync: rng.chance(2, 3) }),
                16..=17 => acts.push(Act::Crash { torn: rng.chance(1, 2) }),
                _ => acts.push(Act::Compare),
            }
        }
        // the degenerate schedule (checkpoint, crash, restart back to back) at the end of every run
        acts.push(Act::Checkpoint { sync: true });
        acts.push(Act::Crash { torn: false });
        let v: Vec<u64> = match fam {
            "hll" => gen_coupons(rng, a as u8, 50).into_iter().map(|c| c as u64).collect(),
            "cpc" => gen_row_cols(rng, a as u8, 50, true).into_iter().map(|c| c as u64).collect(),
            "td" => (0..50).map(|i| (i as f64 * 1.5).to_bits()).collect(),
            _ => (0..50).map(|_| rng.below(80)).collect(),
        };
        acts.push(Act::Update { vals: v.clone(), w: 3 });
        acts.push(Act::Merge { vals: v, b: rng.next_u64() });
        (cfg, acts)
    }

    fn execute(&self, cfg: &Cfg, acts: &[Act], st: &mut RunStats) -> Result<(), Violation> {
        let fam = cfg.fam.as_str();
        let kind = (cfg.b % 3) as u8;
        let mut primary = Node::new(cfg);
        let mut twin = Node::new(cfg);
        st.shape_seq(crate::rng::fnv1a(fam.as_bytes()) % 997);
        // framed checkpoint store of the primary + WAL of operations
        let mut gens: Vec<(Vec<u8>, bool, usize)> = vec![];
        let mut wal: Vec<Act> = vec![];
        let mut restarted = false;
        let mut var = cfg.seed;

        // Frequent Items: maximum_error (the purge offset) held by the image the primary was last restored from
        let fi_offset_at_restart = std::cell::Cell::new(None::<u64>);
        let tainted = std::cell::Cell::new(false);
        let compare = |p: &mut Node, t: &mut Node, when: &str, st: &mut RunStats, var: u64| -> Result<(), Violation> {
            if let Node::Theta(s) = t {
                if s.num_retained() > 60_000 {
                    // rare large state: every form (ordered / unordered, compressed / not)
                    for v in [var ^ 1, var ^ 2, var ^ 3] {
                        theta_degenerate(s, v, st)?;
                    }
                }
                return theta_degenerate(s, var, st);
            }
            let (op, ot) = lib_call("accessors", || (p.observe(), t.observe()))?;
            st.lib_calls += op.len() as u64 * 2;
            for (x, y) in op.iter().zip(&ot) {
                if x.1 != y.1 {
                    // sub-class: a Frequent Items replica that has purged since its restart. The purge
                    // samples counters in table order and a restored map is laid out differently.
                    let mut class = "C11.accessor_differs".to_string();
                    if let (Node::Fi(ps, _), Node::Fi(ts, _)) = (&*p, &*t) {
                        if let Some(o) = fi_offset_at_restart.get() {
                            if ps.maximum_error() != o || ts.maximum_error() != o {
                                class.push_str("|fi_purged_since_restart");
                            }
                        }
                    }
                    let viol = Violation::new(class.clone(), format!("{fam}: {when}: {} of the restored replica = {:#x}, of the never-crashed twin = {:#x}", x.0, x.1, y.1));
                    if class.ends_with("fi_purged_since_restart") {
                        // recorded finding: the pair has legitimately (by the finding) diverged, so
                        // nothing later in this run can be compared any more
                        st.record(viol);
                        tainted.set(true);
                        return Ok(());
                    }
                    return Err(viol);
                }
            }
            // `==` is a public query too (HllSketch, BloomFilter and CountMinSketch implement PartialEq)
            let eq = lib_call("PartialEq::eq", || match (&*p, &*t) {
                (Node::Hll(x), Node::Hll(y)) => Some(x == y && y == x),
                (Node::Bloom(x), Node::Bloom(y)) => Some(x == y && y == x),
                (Node::Cm(x, ..), Node::Cm(y, ..)) => Some(x.same_as(y)),
                _ => None,
            })?;
            if let Some(eq) = eq {
                check!(eq, "C11.partial_eq", "{fam}: {when}: the restored replica does not compare equal (==) to the never-crashed twin although every accessor agrees");
            }
            let (ip, it) = lib_call("serialize", || (p.image(var), t.image(var)))?;
            st.observe(&it);
            if let Err(e) = images_equivalent(fam, kind, &ip, &it) {
                return Err(Violation::new("C11.image_differs", format!("{fam}: {when}: serialize() of the restored replica and of the twin encode different states: {e}")));
            }
            if let (Node::Cpc(_), true) = (&*p, true) {
                // CpcWrapper agrees with full deserialization
                let w = match lib_call("CpcWrapper::new", || CpcWrapper::new(&it))? {
                    Ok(w) => w,
                    Err(e) => return Err(Violation::new("C11.own_image_rejected", format!("CpcWrapper::new rejected an own image: {e}"))),
                };
                if let Node::Cpc(s) = &*t {
                    let same = w.estimate().to_bits() == s.estimate().to_bits() && w.is_empty() == s.is_empty() && w.lg_k() == s.lg_k() && STDS.iter().all(|sd| w.lower_bound(*sd).to_bits() == s.lower_bound(*sd).to_bits() && w.upper_bound(*sd).to_bits() == s.upper_bound(*sd).to_bits());
                    check!(same, "C11.cpc_wrapper_differs", "CpcWrapper answers differ from the sketch: estimate {} vs {}", w.estimate(), s.estimate());
                }
            }
            Ok(())
        };

        for act in acts {
            st.ticks += 1;
            if tainted.get() {
                return Ok(());
            }
            // the run's shape: the sequence of action kinds (with a size bucket for data actions)
            st.shape_seq(match act {
                Act::Update { vals, .. } => 10 + (usize::BITS - vals.len().leading_zeros()) as u64 / 3,
                Act::Merge { vals, .. } => 20 + (usize::BITS - vals.len().leading_zeros()) as u64 / 3,
                Act::Local { .. } => 30,
                Act::Fill { .. } => 31,
                Act::Checkpoint { sync } => 32 + *sync as u64,
                Act::Crash { torn } => 34 + *torn as u64,
                Act::Compare => 36,
            });
            match act {
                Act::Update { vals, w } => {
                    lib_call("update(primary)", || primary.update(vals, *w))?;
                    lib_call("update(twin)", || twin.update(vals, *w))?;
                    wal.push(act.clone());
                    st.lib_calls += 2 * vals.len() as u64;
                }
                Act::Merge { vals, b } => {
                    lib_call("merge(primary)", || primary.merge(vals, *b))?;
                    lib_call("merge(twin)", || twin.merge(vals, *b))?;
                    wal.push(act.clone());
                }
                Act::Fill { cols, seed } => {
                    lib_call("fill(primary)", || primary.fill(*cols, *seed))?;
                    lib_call("fill(twin)", || twin.fill(*cols, *seed))?;
                    wal.push(act.clone());
                }
                Act::Local { op } => {
                    lib_call("local(primary)", || primary.local(*op))?;
                    lib_call("local(twin)", || twin.local(*op))?;
                    wal.push(act.clone());
                }
                Act::Checkpoint { sync } => {
                    var = crate::rng::mix(var, 1);
                    if matches!(primary, Node::Theta(_)) {
                        // theta cannot be restored: degenerate form only
                        theta_degenerate(match &twin { Node::Theta(s) => s, _ => unreachable!() }, var, st)?;
                        continue;
                    }
                    let img = lib_call("serialize(checkpoint)", || primary.image(var))?;
                    // t-digest: serialize() compresses the buffer; keep the pair on one merge schedule
                    if let Node::Td(d) = &mut twin {
                        let _ = lib_call("serialize(twin)", || d.serialize())?;
                    }
                    // serialize() of a t-digest compresses its buffer, i.e. it is an operation on the
                    // state; the WAL records it so that a replay follows the same merge schedule
                    if matches!(primary, Node::Td(_)) {
                        wal.push(Act::Checkpoint { sync: true });
                    }
                    gens.push((frame(&img), *sync, wal.len()));
                    if gens.len() > 2 {
                        gens.remove(0);
                    }
                    st.fault(if *sync { "checkpoint_synced" } else { "checkpoint_unsynced" });
                }
                Act::Crash { torn } => {
                    if matches!(primary, Node::Theta(_)) {
                        continue;
                    }
                    st.fault("crash_restart");
                    if let Some(last) = gens.last_mut() {
                        if !last.1 {
                            if *torn {
                                let l = last.0.len();
                                last.0.truncate(l * 2 / 3);
                                st.fault("torn_checkpoint");
                            } else {
                                last.1 = true;
                            }
                        }
                    }
                    let mut restored: Option<(Node, usize)> = None;
                    for (f, _, w) in gens.iter().rev() {
                        match unframe(f) {
                            Some(img) => match lib_call("deserialize(restore)", || primary.restore(cfg, img))? {
                                Ok(n) => {
                                    restored = Some((n, *w));
                                    break;
                                }
                                Err(e) => return Err(Violation::new("C11.own_image_rejected", format!("{fam}: an intact checkpoint image written by serialize() was rejected: {e} ({} bytes: {})", img.len(), crate::item::hex(&img[..img.len().min(40)])))),
                            },
                            None => st.fault("checkpoint_rejected_by_frame_crc"),
                        }
                    }
                    gens.retain(|g| unframe(&g.0).is_some());
                    let (n, from) = match restored {
                        Some(x) => x,
                        None => (Node::new(cfg), 0),
                    };
                    if let Node::Fi(ps, _) = &n {
                        fi_offset_at_restart.set(Some(ps.maximum_error()));
                    }
                    primary = n;
                    // a union restored from its result sketch is a new history for the twin as well:
                    // unions are compared on their results only (see observe)
                    for op in wal[from..].to_vec() {
                        match &op {
                            Act::Update { vals, w } => lib_call("update(wal replay)", || primary.update(vals, *w))?,
                            Act::Merge { vals, b } => lib_call("merge(wal replay)", || primary.merge(vals, *b))?,
                            Act::Local { op } => lib_call("local(wal replay)", || primary.local(*op))?,
                            Act::Fill { cols, seed } => lib_call("fill(wal replay)", || primary.fill(*cols, *seed))?,
                            Act::Checkpoint { .. } => {
                                if let Node::Td(d) = &mut primary {
                                    let _ = lib_call("serialize(wal replay)", || d.serialize())?;
                                }
                            }
                            Act::Compare => {
                                let _ = lib_call("queries(wal replay)", || {
                                    let _ = primary.observe();
                                    primary.image(var)
                                })?;
                            }
                            _ => {}
                        }
                    }
                    if from < wal.len() {
                        st.fault("wal_suffix_replayed");
                    }
                    restarted = true;
                    st.nontrivial = true;

                    compare(&mut primary, &mut twin, "right after restart", st, var)?;
                    if matches!(primary, Node::Td(_)) {
                        wal.push(Act::Compare);
                    }
                }
                Act::Compare => {
                    compare(&mut primary, &mut twin, "at a Compare step", st, var)?;
                    if matches!(primary, Node::Td(_)) {
                        wal.push(Act::Compare);
                    }
                }
            }
            if restarted && !matches!(act, Act::Crash { .. } | Act::Checkpoint { .. }) {
                compare(&mut primary, &mut twin, "after a further operation following a restart", st, var)?;
                // queries compress a t-digest's buffer (a state change): the WAL records them so that
                // a later replay follows the same schedule as the twin
                if matches!(primary, Node::Td(_)) {
                    wal.push(Act::Compare);
                }
            }
        }
        if tainted.get() {
            return Ok(());
        }
        compare(&mut primary, &mut twin, "at the end of the run", st, var)?;
        Ok(())
    }

    fn shrink_action(&self, a: &Act) -> Vec<Act> {
        let halve = |v: &Vec<u64>| -> Vec<Vec<u64>> {
            if v.len() <= 1 { vec![] } else { vec![v[..v.len() / 2].to_vec(), v[v.len() / 2..].to_vec()] }
        };
        match a {
            Act::Update { vals, w } => halve(vals).into_iter().map(|v| Act::Update { vals: v, w: *w }).collect(),
            Act::Merge { vals, b } => halve(vals).into_iter().map(|v| Act::Merge { vals: v, b: *b }).collect(),
            Act::Crash { torn: true } => vec![Act::Crash { torn: false }],
            _ => vec![],
        }
    }
}

impl Scenario for C17Extremes {
    type Cfg = Cfg;
    type Act = Act;
    fn name(&self) -> &'static str {
        "c17_extremes"
    }
    fn runs(&self, tier: Tier) -> u64 {
        match tier {
            Tier::Quick => 6_000,
            Tier::Thorough => 300_000,
        }
    }
    fn generate(&self, rng: &mut Rng, tier: Tier) -> (Cfg, Vec<Act>) {
        // documented extremes: HLL lg_k 4 and 21; CPC 4, 16, 21; theta 5; t-digest k = 10;
        // FI map size 8; Bloom 1 bit / 1 hash; Count-Min 1 x 3 with narrow counters
        let fam = *rng.pick(FAMS);
        let big_ok = rng.chance(1, if tier == Tier::Quick { 40 } else { 20 });
        let (a, b) = match fam {
            "hll" | "hll_union" => (if big_ok { 21 } else { 4 }, rng.below(3)),
            "cpc" | "cpc_union" => (if big_ok && fam == "cpc" { *rng.pick(&[16u64, 21]) } else { 4 }, 0),
            "theta" => (5, rng.below(16)),
            "bloom" => (1, 1),
            "cm" => (1, 3),
            "fi" => (rng.range(0, 4), rng.below(3)),
            _ => (10, 0),
        };
        // Count-Min: the counter type is seed % 8; prefer the narrow ones
        let mut seed = rng.next_u64();
        if fam == "cm" && rng.chance(3, 4) {
            seed = (seed & !7) | *rng.pick(&[0u64, 4, 1, 5]);
        }
        let cfg = Cfg { fam: fam.to_string(), a, b, seed };
        let mut acts = vec![];
        let large = a >= 16 && (fam == "hll" || fam == "cpc");
        let steps = if large { 3 + rng.usize_below(4) } else { 8 + rng.usize_below(30) };
        let shape = rng.below(10) as u8;
        for _ in 0..steps {
            let n = match rng.below(4) {
                0 => rng.usize_below(9),
                1 => rng.usize_below(100),
                _ => rng.usize_below(match fam { "td" => 4000, "theta" => 600, _ => 1500 }),
            };
            let vals: Vec<u64> = match fam {
                "hll" => gen_coupons(rng, a as u8, n.max(1)).into_iter().map(|c| c as u64).collect(),
                "cpc" => gen_row_cols(rng, a as u8, n.max(1), true).into_iter().map(|c| c as u64).collect(),
                "cpc_union" => gen_row_cols(rng, 8, n.min(2000).max(1), true).into_iter().map(|c| c as u64).collect(),
                "theta" => (0..n).map(|_| rng.next_u64() >> rng.range(1, 30)).collect(),
                "td" => (0..n).map(|i| crate::scen::c10::gen_value(rng, shape, i as u64, n as u64, 1.0).to_bits()).collect(),
                _ => (0..n).map(|_| if rng.chance(1, 2) { rng.below(12) } else { rng.next_u64() }).collect(),
            };
            match rng.below(20) {
                0..=7 => acts.push(Act::Update { vals, w: rng.next_u64() }),
                8 if large => acts.push(Act::Fill { cols: rng.range(1, if fam == "hll" { 3 } else { 6 }) as u8, seed: rng.next_u64() }),
                8..=10 => {
                    let v = match fam {
                        "hll_union" => { let lgp = *rng.pick(&[4u8, 12, 14]); gen_coupons(rng, lgp, n.min(3000).max(1)) }.into_iter().map(|c| c as u64).collect(),
                        _ => vals,
                    };
                    acts.push(Act::Merge { vals: v, b: rng.next_u64() })
                }
                11..=12 => acts.push(Act::Local { op: rng.next_u32() as u8 }),
                13..=15 => acts.push(Act::Checkpoint { sync: rng.chance(2, 3) }),
                16..=17 => acts.push(Act::Crash { torn: rng.chance(1, 2) }),
                _ => acts.push(Act::Compare),
            }
        }
        if large {
            acts.insert(0, Act::Fill { cols: rng.range(1, if fam == "hll" { 3 } else { 6 }) as u8, seed: rng.next_u64() });
        }
        acts.push(Act::Checkpoint { sync: true });
        acts.push(Act::Crash { torn: false });
        acts.push(Act::Compare);
        (cfg, acts)
    }
    fn execute(&self, cfg: &Cfg, acts: &[Act], st: &mut RunStats) -> Result<(), Violation> {
        st.probe(&format!("extreme_{}_{}", cfg.fam, cfg.a));
        lib_call("public helpers and constructors with in-range arguments", || misc_public_surface(cfg))?.map_err(|e| Violation::new("C17.public_surface", e))?;
        if cfg.fam == "theta" {
            // ThetaSketchBuilder::seed documents no excluded value, but one seed in 65536 hashes to a
            // 16-bit seed hash of zero, which compute_seed_hash refuses with a panic (CPC documents
            // this precondition on its constructors; theta does not). The panic is reported under
            // its own class so that any other panic at the same site stays a fresh violation.
            let mut bad = cfg.seed & 0xffff_ffff;
            while crate::refhash::seed_hash(bad) != 0 {
                bad += 1;
            }
            let r = lib_call("theta sketch with a seed whose seed hash is zero", || {
                let mut t = ThetaSketch::builder().lg_k(5).seed(bad).build();
                for i in 0..40u64 {
                    t.update(i);
                }
                let _ = (t.estimate(), t.num_retained());
                let c = t.compact(true);
                let _ = c.serialize();
            });
            if let Err(v) = r {
                if v.invariant.contains("hash/mod.rs") && v.invariant.contains("seed_hash") {
                    st.record(Violation::new("C17.theta_seed_with_zero_seed_hash_panics", format!("ThetaSketch::builder().seed({bad}) builds and updates, then panics: {}", v.detail)));
                } else {
                    return Err(v);
                }
            }
        }
        C11.execute(cfg, acts, st)
    }
    fn shrink_action(&self, a: &Act) -> Vec<Act> {
        C11.shrink_action(a)
    }
}

/// Public functions no cluster scenario reaches: constructors with defaults, the static sizing
/// helpers, float update entry points, frozen t-digest accessors. Arguments stay in the documented
/// ranges; the only oracle is C17's (no panic) plus trivial identities.
fn misc_public_surface(cfg: &Cfg) -> Result<(), String> {
    macro_rules! want {
        ($c:expr, $($a:tt)*) => {
            if !($c) {
                return Err(format!($($a)*));
            }
        };
    }
    use datasketches::common::ResizeFactor;
    let u = cfg.seed;
    let unit = (u >> 11) as f64 / (1u64 << 53) as f64; // [0,1)
    match cfg.fam.as_str() {
        "cm" => {
            let _ = datasketches::countmin::CountMinSketch::<u64>::suggest_num_buckets(unit);
            let _ = datasketches::countmin::CountMinSketch::<u64>::suggest_num_buckets(1e-9 + unit * 1e-3);
            for c in [0.0, unit, 0.999_999_999, 1.0] {
                let h = datasketches::countmin::CountMinSketch::<u64>::suggest_num_hashes(c);
                want!(h <= 127, "suggest_num_hashes({c}) = {h}");
            }
            // zero weights, decay factors at both ends of (0, 1], halving down to zero
            let mut zc = datasketches::countmin::CountMinSketch::<u32>::with_seed(3, 5, u);
            zc.update_with_weight(1u64, 0);
            zc.update_with_weight(2u64, 1);
            zc.halve();
            zc.decay(1.0);
            zc.update_with_weight(3u64, 7);
            zc.decay(f64::MIN_POSITIVE);
            want!(zc.estimate(3u64) <= zc.total_weight(), "Count-Min after halve/decay: estimate {} total {}", zc.estimate(3u64), zc.total_weight());
            let _ = datasketches::countmin::CountMinSketch::<u32>::deserialize_with_seed(&zc.serialize(), u).map_err(|e| format!("Count-Min image after decay rejected: {e}"))?;
            // upper end of the documented ranges that is cheap to build: 127 rows
            let mut big = datasketches::countmin::CountMinSketch::<u16>::with_seed(127, 3 + (u % 5) as u32, u);
            for i in 0..40u64 {
                big.update_with_weight(i, 1 + (i % 3) as u16);
            }
            let img = big.serialize();
            let back = datasketches::countmin::CountMinSketch::<u16>::deserialize_with_seed(&img, u).map_err(|e| format!("127-row Count-Min image rejected: {e}"))?;
            want!(back.total_weight() == big.total_weight() && back.estimate(7u64) == big.estimate(7u64), "127-row Count-Min round trip");
        }
        "fi" => {
            for lg in [3u8, (3 + u % 20) as u8] {
                let e = datasketches::frequencies::FrequentItemsSketch::<i64>::apriori_error(lg, (u >> 8) as i64 & i64::MAX);
                want!(e >= 0.0, "apriori_error({lg}) = {e}");
            }
            // a zero count is a valid (if useless) update
            let mut z = datasketches::frequencies::FrequentItemsSketch::<i64>::new(8);
            z.update_with_count(1, 0);
            z.update_with_count(2, 3);
            z.update_with_count(2, 0);
            want!(z.total_weight() == 3 && z.estimate(&2) == 3 && z.estimate(&1) == 0, "update_with_count(_, 0): total {} est(2) {} est(1) {}", z.total_weight(), z.estimate(&2), z.estimate(&1));
            let zb = datasketches::frequencies::FrequentItemsSketch::<i64>::deserialize(&z.serialize()).map_err(|e| format!("image after zero-count updates rejected: {e}"))?;
            want!(zb.total_weight() == 3 && zb.num_active_items() == z.num_active_items(), "round trip after zero-count updates");
            // counts whose total still fits u64 but is far beyond i64: purge, bounds and the round trip must cope
            let mut hw = datasketches::frequencies::FrequentItemsSketch::<u64>::new(8);
            let big = 1u64 << 59;
            for i in 0..30u64 {
                hw.update_with_count(i % 13, big + (u % 1000) + i);
            }
            let tw = hw.total_weight();
            want!(tw == (0..30u64).map(|i| big + (u % 1000) + i).sum::<u64>(), "FI heavy counts: total_weight {tw}");
            for i in 0..13u64 {
                want!(hw.lower_bound(&i) <= hw.upper_bound(&i) && hw.upper_bound(&i) - hw.lower_bound(&i) <= hw.maximum_error(), "FI heavy counts: bounds of {i}");
            }
            let hb = datasketches::frequencies::FrequentItemsSketch::<u64>::deserialize(&hw.serialize()).map_err(|e| format!("FI heavy-count image rejected: {e}"))?;
            want!(hb.total_weight() == tw && hb.maximum_error() == hw.maximum_error(), "FI heavy counts round trip");
            // the largest documented map size (2^31 slots maximum; the table starts at 8 and grows on demand)
            let mut big = datasketches::frequencies::FrequentItemsSketch::<i64>::new(1usize << 31);
            for i in 0..200i64 {
                big.update_with_count(i % 50, 1 + (i as u64 % 4));
            }
            want!(big.maximum_map_capacity() == 3 * (1usize << 31) / 4 && big.num_active_items() == 50, "FrequentItemsSketch::new(2^31) bookkeeping");
            let img = big.serialize();
            let back = datasketches::frequencies::FrequentItemsSketch::<i64>::deserialize(&img).map_err(|e| format!("2^31-size Frequent Items image rejected: {e}"))?;
            want!(back.total_weight() == big.total_weight() && back.estimate(&7) == big.estimate(&7), "FrequentItemsSketch::new(2^31) round trip");
        }
        "bloom" => {
            for fpp in [1e-300, 1e-9, unit.max(1e-12), 0.5, 1.0] {
                let h = BloomFilterBuilder::suggest_num_hashes_from_fpp(fpp);
                want!(h >= 1, "suggest_num_hashes_from_fpp({fpp}) = {h}");
            }
            // the largest documented number of hash functions on a small array
            let mut f = BloomFilterBuilder::with_size(64 + u % 4000, BloomFilterBuilder::MAX_NUM_HASHES).seed(u).build();
            f.insert(u);
            want!(f.contains(&u) && f.bits_used() >= 1, "Bloom filter with MAX_NUM_HASHES");
            let back = BloomFilter::deserialize(&f.serialize()).map_err(|e| format!("MAX_NUM_HASHES Bloom image rejected: {e}"))?;
            want!(back.contains(&u) && back.bits_used() == f.bits_used(), "Bloom filter with MAX_NUM_HASHES round trip");
            // with_accuracy at the ends of its documented ranges (max_items > 0, fpp in (0, 1])
            for (n, p) in [(1u64, 1.0f64), (1, 0.5), (1, 1e-12), (1 + u % 5000, 1.0), (1 + u % 5000, unit.max(1e-9))] {
                let mut g = BloomFilterBuilder::with_accuracy(n, p).seed(u).build();
                g.insert(n);
                want!(g.contains(&n) && g.capacity() >= 1 && g.num_hashes() >= 1, "with_accuracy({n}, {p})");
                let gb = BloomFilter::deserialize(&g.serialize()).map_err(|e| format!("with_accuracy({n}, {p}) image rejected: {e}"))?;
                want!(gb.contains(&n) && gb.capacity() == g.capacity() && gb.num_hashes() == g.num_hashes(), "with_accuracy({n}, {p}) round trip");
            }
            // sizing helpers at the ends of their ranges
            for (n, p) in [(1u64, 1.0f64), (1, 1e-300), (u64::MAX, 0.5), (u64::MAX, 1e-300), (1 + u % 1_000_000, unit.max(1e-12))] {
                let bits = BloomFilterBuilder::suggest_num_bits(n, p);
                let h = BloomFilterBuilder::suggest_num_hashes_from_accuracy(n, bits);
                want!((BloomFilterBuilder::MIN_NUM_BITS..=BloomFilterBuilder::MAX_NUM_BITS).contains(&bits) && h >= 1, "suggest_num_bits({n},{p}) = {bits}, suggest_num_hashes = {h}");
            }
        }
        "theta" => {
            for rf in [ResizeFactor::X1, ResizeFactor::X2, ResizeFactor::X4, ResizeFactor::X8] {
                want!(rf.value().is_power_of_two(), "ResizeFactor::value");
            }
            let mut s = ThetaSketch::builder().lg_k(5).build();
            for v in [0.0f64, -0.0, 1.5, f64::MAX, f64::MIN_POSITIVE, f64::INFINITY, f64::NEG_INFINITY, f64::NAN, unit] {
                s.update_f64(v);
                s.update_f32(v as f32);
            }
            // 0.0 and -0.0 are one item; every NaN is one item
            let mut z = ThetaSketch::builder().lg_k(5).build();
            z.update_f64(0.0);
            z.update_f64(-0.0);
            z.update_f64(f64::NAN);
            z.update_f64(f64::from_bits(0x7ff8_0000_0000_0001));
            want!(z.num_retained() == 2, "update_f64: 0.0 / -0.0 and the NaNs must each be one item (documented canonical form); retained {}", z.num_retained());
            let _ = (s.estimate(), s.theta(), s.is_empty(), s.lg_k());
            // sampling probabilities over the whole documented range (0, 1]
            for p in [f32::MIN_POSITIVE, 1e-30, 1e-19, 1e-10, 1e-3, 1.0] {
                let mut t = ThetaSketch::builder().lg_k(5).sampling_probability(p).build();
                let _ = (t.estimate(), t.theta(), t.is_empty(), t.is_estimation_mode());
                for sd in STDS {
                    let (lo, hi) = (t.lower_bound(sd), t.upper_bound(sd));
                    want!(lo <= hi, "theta p={p}: bounds {lo} > {hi} before any update");
                }
                for i in 0..200u64 {
                    t.update(i ^ u);
                }
                for sd in STDS {
                    let (lo, hi) = (t.lower_bound(sd), t.upper_bound(sd));
                    want!(lo <= t.estimate() && t.estimate() <= hi, "theta p={p}: bounds {lo} / {} / {hi}", t.estimate());
                }
                for ordered in [false, true] {
                    let c = t.compact(ordered);
                    let _ = (c.estimate(), c.theta(), c.is_empty());
                    for sd in STDS {
                        let _ = (c.lower_bound(sd), c.upper_bound(sd));
                    }
                    for img in [c.serialize(), c.serialize_compressed()] {
                        let back = CompactThetaSketch::deserialize(&img).map_err(|e| format!("theta p={p}: own image rejected: {e}"))?;
                        want!(back.num_retained() == c.num_retained() && back.theta64() == c.theta64(), "theta p={p}: round trip retained {} theta {:#x}", back.num_retained(), back.theta64());
                        for sd in STDS {
                            let _ = (back.lower_bound(sd), back.upper_bound(sd));
                        }
                    }
                }
            }
            // the largest documented nominal size: the table starts small and grows on demand
            let mut big = ThetaSketch::builder().lg_k(26).resize_factor(ResizeFactor::X2).build();
            for i in 0..3000u64 {
                big.update(i ^ u);
            }
            want!(big.num_retained() == 3000 && big.estimate() == 3000.0, "theta lg_k 26: retained {} estimate {}", big.num_retained(), big.estimate());
            let c = big.compact(true);
            let back = CompactThetaSketch::deserialize(&c.serialize_compressed()).map_err(|e| format!("lg_k 26 theta image rejected: {e}"))?;
            want!(back.num_retained() == 3000, "theta lg_k 26 round trip");
        }
        "cpc" | "cpc_union" => {
            let mut s = CpcSketch::default();
            for v in [0.0f64, -0.0, 2.5, f64::MAX, f64::INFINITY, f64::NAN, unit] {
                s.update_f64(v);
                s.update_f32(v as f32);
            }
            let _ = s.estimate();
            let d = CpcUnion::default();
            let _ = d.lg_k();
            // the largest documented lg_k: stays sparse for a short stream
            let mut big = CpcSketch::new(26);
            for i in 0..2000u64 {
                big.update(i ^ u);
            }
            want!(big.num_coupons() >= 1990 && big.validate(), "CPC lg_k 26: {} coupons", big.num_coupons());
            let img = big.serialize();
            want!(img.len() <= CpcSketch::max_serialized_bytes(26), "CPC lg_k 26 image {} bytes", img.len());
            let back = CpcSketch::deserialize(&img).map_err(|e| format!("lg_k 26 CPC image rejected: {e}"))?;
            want!(back.num_coupons() == big.num_coupons() && back.estimate().to_bits() == big.estimate().to_bits(), "CPC lg_k 26 round trip");
            let w = CpcWrapper::new(&img).map_err(|e| format!("lg_k 26 CPC image rejected by CpcWrapper: {e}"))?;
            want!(w.estimate().to_bits() == big.estimate().to_bits(), "CPC lg_k 26 wrapper");
            let mut un = CpcUnion::new(26);
            un.update(&big);
            want!(un.to_sketch().num_coupons() == big.num_coupons(), "CPC lg_k 26 union");
        }
        "hll" | "hll_union" => {
            let un = HllUnion::new((4 + u % 18) as u8);
            want!(un.lg_max_k() == (4 + u % 18) as u8, "HllUnion::lg_max_k");
        }
        _ => {
            let mut d = TDigestMut::default();
            let _ = d.k();
            want!(TDigestMut::try_new(9).is_err() && TDigestMut::try_new(10).is_ok(), "TDigestMut::try_new bounds");
            let mut t = TDigestMut::try_new((10 + u % 500) as u16).expect("k >= 10");
            for i in 0..(u % 300) {
                t.update(i as f64 * unit);
                d.update(-(i as f64));
            }
            let splits = [0.0, 1.0, 50.0];
            let (pm, cd) = (t.pmf(&splits), t.cdf(&splits));
            want!(pm.is_some() == !t.is_empty() && cd.is_some() == !t.is_empty(), "pmf/cdf Some-ness");
            let _ = t.pmf(&[]);
            let fz = t.clone().freeze();
            want!(fz.k() == t.k() && fz.is_empty() == t.is_empty() && fz.min_value() == t.min_value() && fz.max_value() == t.max_value() && fz.total_weight() == t.total_weight(), "frozen digest accessors differ from the mutable digest's");
            let _ = (fz.pmf(&splits), fz.cdf(&splits), fz.rank(1.0), fz.quantile(0.5));
            // infinite query points are valid (only NaN is excluded): 0 below min, 1 above max
            if !t.is_empty() {
                let (lo, hi) = (t.rank(f64::NEG_INFINITY), t.rank(f64::INFINITY));
                want!(lo == Some(0.0) && hi == Some(1.0), "rank(-inf) = {lo:?}, rank(+inf) = {hi:?}");
                let sp = [f64::NEG_INFINITY, 0.0, f64::MAX, f64::INFINITY];
                let (c, p) = (t.cdf(&sp), t.pmf(&sp));
                let (c, p) = (c.unwrap_or_default(), p.unwrap_or_default());
                want!(c.len() == 5 && p.len() == 5 && c[0] == 0.0 && (p.iter().sum::<f64>() - 1.0).abs() < 1e-9, "cdf/pmf over infinite split points: {c:?} {p:?}");
                for q in [0.0, f64::MIN_POSITIVE, 0.5, 1.0 - f64::EPSILON / 2.0, 1.0] {
                    let v = t.quantile(q);
                    want!(v.is_some_and(|v| v >= t.min_value().unwrap() && v <= t.max_value().unwrap()), "quantile({q}) = {v:?}");
                }
            }
            // k over the whole documented range (u16, at least 10)
            for k in [10u16, 32767, 32768, 40000 + (u % 20000) as u16, u16::MAX] {
                let mut x = TDigestMut::new(k);
                for i in 0..(u % 500) {
                    x.update(i as f64 - unit);
                }
                let n = x.total_weight();
                let img = x.serialize();
                let mut back = TDigestMut::deserialize(&img, false).map_err(|e| format!("k={k} t-digest image rejected: {e}"))?;
                want!(back.k() == k && back.total_weight() == n, "t-digest k={k} round trip: k {} weight {}", back.k(), back.total_weight());
                let mut other = TDigestMut::new(10);
                other.update(unit);
                back.merge(&other);
                other.merge(&x);
                want!(back.total_weight() == n + 1 && other.total_weight() == n + 1, "t-digest k={k} merge weights");
            }
        }
    }
    Ok(())
}
