pub mod c16;
