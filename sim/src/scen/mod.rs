pub mod c16;
pub mod c14;
pub mod c02;
pub mod c03;
pub mod c05;
pub mod c06;
pub mod c07;
