//! C18 — sketch size is bounded by configuration, not by stream length.
//!
//! System: a long-lived Worker per run; at every power-of-two prefix of its stream it flushes
//! (serializes) and the transport / disk seam measures the image. The simulator contributes the
//! measurement point only (no fault kind bears on this property).

use crate::check;
use crate::core::{RunStats, Scenario, Tier, Violation, lib_call};
use crate::rng::Rng;
use crate::scen::c02::{gen_coupons, item_coupon};
use crate::scen::c07::Sk as FiSk;
use crate::scen::c08::{Cm, type_max};
use crate::speccodec as sc;
use datasketches::bloom::BloomFilterBuilder;
use datasketches::cpc::CpcSketch;
use datasketches::hll::{HllSketch, HllType};
use datasketches::theta::ThetaSketch;
use serde::{Deserialize, Serialize};

pub struct C18;

#[derive(Clone, Serialize, Deserialize)]
pub struct Cfg {
    pub fam: String,
    pub a: u64,
    pub b: u64,
    pub seed: u64,
}

#[derive(Clone, Serialize, Deserialize)]
#[serde(tag = "k")]
pub enum Act {
    /// `len` items of a stream: kind 0 distinct, 1 repeated (small domain), 2 adversarially ordered
    /// (sorted by the derived coupon / hash), 3 crafted coupons (HLL only)
    Stream { kind: u8, len: u32, seed: u64 },
    /// theta only
    Trim,
}

fn hll_type(b: u64) -> HllType {
    match b % 3 {
        0 => HllType::Hll4,
        1 => HllType::Hll6,
        _ => HllType::Hll8,
    }
}

fn items(kind: u8, len: u32, seed: u64) -> Vec<u64> {
    let mut r = Rng::new(seed);
    match kind % 3 {
        0 => {
            let base = r.next_u64();
            (0..len as u64).map(|i| base.wrapping_add(i)).collect()
        }
        1 => {
            let dom = 1 + r.below(5000);
            (0..len).map(|_| r.below(dom)).collect()
        }
        _ => {
            let mut v: Vec<u64> = (0..len).map(|_| r.next_u64()).collect();
            // adversarial order: by the derived HLL coupon (value-major), descending or ascending
            v.sort_by_key(|x| item_coupon(*x));
            if r.chance(1, 2) {
                v.reverse();
            }
            v
        }
    }
}

impl Scenario for C18 {
    type Cfg = Cfg;
    type Act = Act;
    fn name(&self) -> &'static str {
        "c18_sizes"
    }
    fn runs(&self, tier: Tier) -> u64 {
        match tier {
            Tier::Quick => 30_000,
            Tier::Thorough => 300_000,
        }
    }
    fn generate(&self, rng: &mut Rng, tier: Tier) -> (Cfg, Vec<Act>) {
        let fam = *rng.pick(&["hll", "hll", "cpc", "cpc", "cpc", "theta", "fi", "bloom", "cm"]);
        let max_lg = if tier == Tier::Quick { 18 } else { 22 };
        let (a, b) = match fam {
            "hll" => (rng.range(4, 14), rng.below(3)),
            "cpc" => (rng.range(4, 12), 0),
            "theta" => (rng.range(5, 12), rng.below(16)),
            "fi" => (if rng.chance(1, 6) { rng.range(0, 3) } else { rng.range(3, 10) }, rng.below(3)),
            "bloom" => (rng.range(1, 100_000), rng.range(1, 12)),
            _ => (rng.range(1, 8), rng.range(3, 400)),
        };
        let cfg = Cfg { fam: fam.to_string(), a, b, seed: rng.next_u64() };
        let mut acts = vec![];
        if fam == "cpc" && rng.chance(1, 40) {
            // spot run over the upper part of the documented size table (lg_k 13..19), one stream of
            // distinct items up to C/K ~ 8: each table entry gets some twenty sketches per batch, enough
            // for the per-lg_k rate clause to tell a wrong entry from the allowed 0.1 %
            let a = rng.range(13, 19);
            let cfg = Cfg { fam: fam.to_string(), a, b, seed: cfg.seed };
            acts.push(Act::Stream { kind: 0, len: (11u32 << a).min(1 << 23), seed: rng.next_u64() });
            return (cfg, acts);
        }
        // total stream length: log-uniform up to 2^max_lg, long streams rarer
        let lg_total = match rng.below(8) {
            0 => rng.range(14, max_lg),
            1 | 2 => rng.range(10, 16),
            _ => rng.range(0, 13),
        };
        // CPC's bound is stated for C/K up to 8: keep the stream within ~ 8K * 1.4 items
        let total = if fam == "cpc" { (1u64 << lg_total).min(11 << a) } else { 1u64 << lg_total };
        let mut left = total;
        while left > 0 {
            let len = (1 + rng.below(left)).min(left) as u32;
            let kind = if fam == "hll" { rng.below(4) as u8 } else { rng.below(3) as u8 };
            acts.push(Act::Stream { kind, len, seed: rng.next_u64() });
            left -= len as u64;
            if fam == "theta" && rng.chance(1, 4) {
                acts.push(Act::Trim);
            }
        }
        (cfg, acts)
    }

    fn execute(&self, cfg: &Cfg, acts: &[Act], st: &mut RunStats) -> Result<(), Violation> {
        st.shape_seq(crate::rng::fnv1a(cfg.fam.as_bytes()) % 991);
        st.shape_seq(cfg.a.min(64));
        for a in acts {
            st.shape_seq(match a {
                Act::Stream { kind, len, .. } => 10 * (*kind as u64 + 1) + (32 - len.leading_zeros()) as u64 / 4,
                Act::Trim => 99,
            });
        }
        let mut offered: u64 = 0;
        let mut next_pow2: u64 = 1;
        let mut const_len: Option<usize> = None;
        match cfg.fam.as_str() {
            "hll" => {
                let lg_k = (cfg.a as u8).clamp(4, 21);
                let k = 1usize << lg_k;
                let mut sk = HllSketch::new(lg_k, hll_type(cfg.b));
                if lg_k >= 8 && cfg.seed % 16 == 0 {
                    // the stream continues a sketch restored from a foreign writer's coupon SET image: one
                    // holding exactly the largest count a set may hold (or one fewer), in the early layout
                    // whose lgArr byte is zero (seed bit 4) or in the current one
                    let full = 3 * (k / 8) / 4;
                    let n = full - (cfg.seed >> 5) as usize % 2;
                    let mut r = Rng::new(cfg.seed);
                    let mut set = std::collections::BTreeSet::new();
                    while set.len() < n {
                        set.insert(((1 + r.geometric(30)) << 26) | (r.next_u32() & 0x3ff_ffff));
                    }
                    let list: Vec<u32> = set.into_iter().collect();
                    let mut img = crate::speccodec::hll::encode(lg_k, (cfg.b % 3) as u8, 1, &list, &[], false, 0.0, crate::speccodec::hll::Layout::Compact);
                    if cfg.seed >> 4 & 1 == 1 {
                        img[4] = 0;
                    }
                    sk = match lib_call("HllSketch::deserialize(foreign set image)", || HllSketch::deserialize(&img))? {
                        Ok(s) => s,
                        Err(e) => return Err(Violation::new("C18.hll_foreign_set_rejected", format!("valid SET image with {n} coupons at lg_k {lg_k} rejected: {e}"))),
                    };
                    st.probe("hll_stream_continues_restored_set");
                }
                let mut measure = |sk: &HllSketch, offered: u64, st: &mut RunStats| -> Result<(), Violation> {
                    let img = lib_call("HllSketch::serialize", || sk.serialize())?;
                    st.lib_calls += 1;
                    st.observe_u64(img.len() as u64);
                    let s = sk.verif_state();
                    let c = s.coupons.len();
                    match s.cur_mode {
                        0 => {
                            check!(img.len() == 8 + 4 * c, "C18.hll_list_size", "list image {} bytes for {c} coupons (want {})", img.len(), 8 + 4 * c);
                            check!(c < 8, "C18.hll_list_promotion", "list mode with {c} coupons after {offered} items (promotion at 8)");
                        }
                        1 => {
                            check!(img.len() == 12 + 4 * c, "C18.hll_set_size", "set image {} bytes for {c} coupons (want {})", img.len(), 12 + 4 * c);
                            check!(lg_k >= 8 && 4 * c <= 3 * (k / 8), "C18.hll_set_promotion", "set mode with {c} coupons at lg_k {lg_k} after {offered} items (bound 3/4 of {})", k / 8);
                        }
                        _ => {
                            let regs = match s.tgt_type {
                                0 => k / 2,
                                1 => 3 * k / 4 + 1,
                                _ => k,
                            };
                            let min = *s.registers.iter().min().unwrap();
                            let exceptions = if s.tgt_type == 0 { s.registers.iter().filter(|v| **v - min >= 15).count() } else { 0 };
                            check!(s.aux.len() == exceptions, "C18.hll_aux_count", "{} aux entries but {exceptions} registers are >= cur_min + 15", s.aux.len());
                            check!(img.len() == 40 + regs + 4 * exceptions, "C18.hll_array_size", "array image {} bytes at lg_k {lg_k} type {} with {exceptions} aux entries (want {})", img.len(), s.tgt_type, 40 + regs + 4 * exceptions);
                        }
                    }
                    st.shape_seq(s.cur_mode as u64);
                    Ok(())
                };
                for a in acts {
                    let Act::Stream { kind, len, seed } = a else { continue };
                    let vals: Vec<u64> = if *kind == 3 {
                        let mut r = Rng::new(*seed);
                        gen_coupons(&mut r, lg_k, (*len as usize).max(1)).into_iter().map(|c| c as u64).collect()
                    } else {
                        items(*kind, *len, *seed)
                    };
                    for v in vals {
                        if *kind == 3 {
                            lib_call("verif_update_with_coupon", || sk.verif_update_with_coupon(v as u32))?;
                        } else {
                            lib_call("HllSketch::update", || sk.update(v))?;
                        }
                        offered += 1;
                        if offered == next_pow2 {
                            next_pow2 *= 2;
                            measure(&sk, offered, st)?;
                        }
                    }
                }
                measure(&sk, offered, st)?;
            }
            "theta" => {
                let lg_k = (cfg.a as u8).clamp(5, 16);
                let k = 1usize << lg_k;
                let rf = match cfg.b % 4 {
                    0 => datasketches::common::ResizeFactor::X1,
                    1 => datasketches::common::ResizeFactor::X2,
                    2 => datasketches::common::ResizeFactor::X4,
                    _ => datasketches::common::ResizeFactor::X8,
                };
                let mut sk = ThetaSketch::builder().lg_k(lg_k).resize_factor(rf).sampling_probability([1.0f32, 1.0, 0.3, 0.01][(cfg.b / 4 % 4) as usize]).build();
                let measure = |sk: &ThetaSketch, after_trim: bool, st: &mut RunStats| -> Result<(), Violation> {
                    let n = sk.num_retained();
                    check!(n <= 15 * 2 * k / 16, "C18.theta_retained", "theta sketch retains {n} entries at lg_k {lg_k} (bound 15/16 of 2k = {})", 15 * 2 * k / 16);
                    if after_trim {
                        check!(n <= k, "C18.theta_retained_after_trim", "{n} entries after trim() at lg_k {lg_k}");
                    }
                    let c = lib_call("compact", || sk.compact(true))?;
                    let a = lib_call("serialize", || c.serialize())?;
                    let b = lib_call("serialize_compressed", || c.serialize_compressed())?;
                    st.lib_calls += 3;
                    st.observe_u64(a.len() as u64);
                    check!(a.len() <= 24 + 8 * n && b.len() <= 24 + 8 * n, "C18.theta_image_size", "compact images {} / {} bytes for {n} retained entries", a.len(), b.len());
                    Ok(())
                };
                for a in acts {
                    match a {
                        Act::Stream { kind, len, seed } => {
                            for v in items(*kind, *len, *seed) {
                                lib_call("ThetaSketch::update", || sk.update(v))?;
                                offered += 1;
                                // the bound must hold after every single update
                                check!(sk.num_retained() <= 15 * 2 * k / 16, "C18.theta_retained", "theta sketch retains {} entries at lg_k {lg_k} after {offered} items", sk.num_retained());
                                if offered == next_pow2 {
                                    next_pow2 *= 2;
                                    measure(&sk, false, st)?;
                                }
                            }
                        }
                        Act::Trim => {
                            lib_call("ThetaSketch::trim", || sk.trim())?;
                            measure(&sk, true, st)?;
                            st.fault("theta_trim");
                        }
                    }
                }
                measure(&sk, false, st)?;
            }
            "cpc" => {
                let lg_k = (cfg.a as u8).clamp(4, 19);
                let mut sk = CpcSketch::new(lg_k);
                let bound = CpcSketch::max_serialized_bytes(lg_k);
                let over = std::cell::Cell::new(false);
                let mut measure = |sk: &CpcSketch, st: &mut RunStats| -> Result<(), Violation> {
                    let img = lib_call("CpcSketch::serialize", || sk.serialize())?;
                    st.lib_calls += 1;
                    st.observe_u64(img.len() as u64);
                    st.count("cpc_images", 1);
                    if img.len() > bound {
                        st.count("cpc_images_over_max_serialized_bytes", 1);
                        st.count(&format!("cpc_over_lgk{lg_k}_ck{}", sk.num_coupons() >> lg_k), 1);
                        over.set(true);
                    }
                    st.maximum("cpc_image_over_bound_ratio", img.len() as f64 / bound as f64);
                    // hard sanity: never more than twice the documented 99.9th percentile
                    check!(img.len() <= 2 * bound + 64, "C18.cpc_image_far_over_bound", "CPC image {} bytes at lg_k {lg_k}, max_serialized_bytes = {bound}", img.len());
                    Ok(())
                };
                // max_serialized_bytes is an empirical percentile over sketches of random item sets. A
                // prefix of an adversarially ordered piece (sorted by column) is not such a set - e.g.
                // only the rarest, highest columns so far - so images are measured at prefixes that end
                // on a piece boundary of ordered pieces, and at every power of two inside unordered ones.
                for a in acts {
                    let Act::Stream { kind, len, seed } = a else { continue };
                    let ordered_piece = *kind % 3 == 2;
                    for v in items(*kind, *len, *seed) {
                        lib_call("CpcSketch::update", || sk.update(v))?;
                        offered += 1;
                        if offered == next_pow2 {
                            next_pow2 *= 2;
                            if !ordered_piece {
                                measure(&sk, st)?;
                            }
                        }
                    }
                    if ordered_piece {
                        st.fault("cpc_adversarially_ordered_piece");
                        measure(&sk, st)?;
                    }
                }
                measure(&sk, st)?;
                // the documented 0.1 % is per sketch lifetime (maximum over its measurements)
                st.count("cpc_sketches", 1);
                st.count(&format!("cpc_sketches_lgk{lg_k}"), 1);
                if over.get() {
                    st.count("cpc_sketches_with_an_image_over_max_serialized_bytes", 1);
                    st.count(&format!("cpc_sketches_over_lgk{lg_k}"), 1);
                }
            }
            "fi" => {
                let kind = (cfg.b % 3) as u8;
                // requested sizes 1, 2, 4 are valid and documented as clamped up to 8
                let raw = (cfg.a as u8).min(12);
                let lg = raw.max(3);
                let mut sk = FiSk::new(kind, raw);
                let cap = 3 * (1usize << lg) / 4;
                // string items: 4-byte length + the bytes; the bound uses the longest item offered so far
                let longest = std::cell::Cell::new(0usize);
                let measure = |sk: &FiSk, st: &mut RunStats| -> Result<(), Violation> {
                    let n = sk.num_active();
                    check!(n <= sk.max_cap() && sk.max_cap() == cap, "C18.fi_active_items", "{n} active items, maximum_map_capacity {} (map size 2^{lg})", sk.max_cap());
                    let img = lib_call("FrequentItemsSketch::serialize", || sk.serialize())?;
                    st.lib_calls += 1;
                    st.observe_u64(img.len() as u64);
                    let item_size = if kind == 2 { 4 + longest.get() } else { 8 };
                    check!(img.len() <= 32 + cap * (8 + item_size), "C18.fi_image_size", "image {} bytes with capacity {cap} (longest item {} bytes)", img.len(), longest.get());
                    Ok(())
                };
                for a in acts {
                    let Act::Stream { kind: k, len, seed } = a else { continue };
                    for v in items(*k, (*len).min(1 << 18), *seed) {
                        if kind == 2 {
                            longest.set(longest.get().max(crate::scen::c07::item_str((v % 100_000) as u32).len()));
                        }
                        lib_call("update", || sk.update((v % 100_000) as u32, 1 + v % 3))?;
                        offered += 1;
                        check!(sk.num_active() <= cap, "C18.fi_active_items", "{} active items exceed capacity {cap} after {offered} items", sk.num_active());
                        if offered == next_pow2 {
                            next_pow2 *= 2;
                            measure(&sk, st)?;
                        }
                    }
                }
                measure(&sk, st)?;
            }
            "bloom" => {
                let (bits, hashes) = (cfg.a.clamp(1, 1 << 20), (cfg.b as u16).clamp(1, 32));
                let mut f = BloomFilterBuilder::with_size(bits, hashes).seed(cfg.seed).build();
                let cap = f.capacity();
                for a in acts {
                    let Act::Stream { kind, len, seed } = a else { continue };
                    for v in items(*kind, *len, *seed) {
                        lib_call("BloomFilter::insert", || f.insert(v))?;
                        offered += 1;
                        if offered == next_pow2 {
                            next_pow2 *= 2;
                            let img = lib_call("BloomFilter::serialize", || f.serialize())?;
                            st.observe_u64(img.len() as u64);
                            check!(f.capacity() == cap, "C18.bloom_capacity_changed", "capacity {} -> {}", cap, f.capacity());
                            check!(img.len() == 32 + cap / 8, "C18.bloom_image_size", "image {} bytes for {cap} bits (want {})", img.len(), 32 + cap / 8);
                            match const_len {
                                None => const_len = Some(img.len()),
                                Some(l) => check!(l == img.len(), "C18.bloom_size_not_constant", "image length changed from {l} to {}", img.len()),
                            }
                        }
                    }
                }
            }
            _ => {
                if crate::refhash::seed_hash(9001) == 0 {
                    return Ok(());
                }
                let t = (cfg.seed % 8) as u8;
                let (h, b) = ((cfg.a as u8).clamp(1, 8), (cfg.b as u32).clamp(3, 1024));
                let mut sk = Cm::new(t, h, b, 9001);
                let max = type_max(t);
                for a in acts {
                    let Act::Stream { kind, len, seed } = a else { continue };
                    for v in items(*kind, *len, *seed) {
                        if offered + 1 > max {
                            break;
                        }
                        lib_call("CountMinSketch::update", || sk.update(v, 1))?;
                        offered += 1;
                        if offered == next_pow2 {
                            next_pow2 *= 2;
                            let img = lib_call("CountMinSketch::serialize", || sk.serialize())?;
                            st.observe_u64(img.len() as u64);
                            let want = 24 + 8 * h as usize * b as usize;
                            check!(img.len() == want, "C18.cm_image_size", "image {} bytes for {h}x{b} (want {want})", img.len());
                            if let Ok(d) = sc::simple::cm_decode(&img) {
                                check!(d.num_hashes == h && d.num_buckets == b, "C18.cm_shape_changed", "shape in the image {}x{}", d.num_hashes, d.num_buckets);
                            }
                        }
                    }
                }
            }
        }
        st.nontrivial = offered > 0;
        st.shape_seq(64 - offered.leading_zeros() as u64);
        Ok(())
    }

    fn shrink_action(&self, a: &Act) -> Vec<Act> {
        match a {
            Act::Stream { kind, len, seed } if *len > 1 => vec![Act::Stream { kind: *kind, len: len / 2, seed: *seed }, Act::Stream { kind: *kind, len: len - 1, seed: *seed }],
            _ => vec![],
        }
    }
}
