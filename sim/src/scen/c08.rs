//! C08 — Count-Min never under-counts; its table is the exact sum of hashed weights.
//!
//! System: 2-4 nodes with `CountMinSketch<T>` of one shape (num_hashes, num_buckets, seed) and one
//! counter type per run; exactly-once transport with reorder / loss-retransmit; for unsigned `T`
//! an epoch broadcast of `halve` / `decay(x)` racing with deliveries. Oracle: exact truth per item
//! and a model table filled with the reference MurmurHash3 and the documented row-seed derivation.

use crate::check;
use crate::core::{RunStats, Scenario, Tier, Violation, lib_call};
use crate::refhash::murmur3_x64_128;
use crate::rng::Rng;
use datasketches::countmin::CountMinSketch;
use serde::{Deserialize, Serialize};
use std::collections::BTreeMap;

pub struct C08;

#[derive(Clone, Serialize, Deserialize)]
pub struct Cfg {
    /// 0..=3 = u8,u16,u32,u64; 4..=7 = i8,i16,i32,i64
    pub ty: u8,
    pub hashes: u8,
    pub buckets: u32,
    pub seed: u64,
    pub nodes: u8,
}

#[derive(Clone, Serialize, Deserialize)]
#[serde(tag = "k")]
pub enum Act {
    Update { n: u8, item: u64, w: u64 },
    Flush { from: u8, to: u8, wire: bool },
    Deliver { pick: u32 },
    Drop { pick: u32 },
    /// epoch: every node halves (unsigned types only)
    Halve,
    /// epoch: every node decays by num/1000 (unsigned types only)
    Decay { pm: u16 },
    Check { n: u8 },
    /// a misconfigured peer (same shape, different seed - optionally one whose 16-bit seed hash
    /// collides with the cluster's) offers its sketch: the merge must be refused
    Stranger { to: u8, collide: bool, items: u8 },
}

pub enum Cm {
    U8(CountMinSketch<u8>),
    U16(CountMinSketch<u16>),
    U32(CountMinSketch<u32>),
    U64(CountMinSketch<u64>),
    I8(CountMinSketch<i8>),
    I16(CountMinSketch<i16>),
    I32(CountMinSketch<i32>),
    I64(CountMinSketch<i64>),
}

macro_rules! each {
    ($cm:expr, $s:ident => $body:expr) => {
        match $cm {
            Cm::U8($s) => $body,
            Cm::U16($s) => $body,
            Cm::U32($s) => $body,
            Cm::U64($s) => $body,
            Cm::I8($s) => $body,
            Cm::I16($s) => $body,
            Cm::I32($s) => $body,
            Cm::I64($s) => $body,
        }
    };
}

/// Items with the top bit set are offered as a composite key whose `Hash` impl makes three writes
/// (u64, u64, a 3-byte tail): 19 bytes that cross a 16-byte block and end in a short tail.
pub struct Composite(pub u64);

impl Composite {
    pub fn bytes(&self) -> Vec<u8> {
        let a = self.0;
        let b = self.0.rotate_left(17) ^ 0x5555_5555_5555_5555;
        let mut v = a.to_le_bytes().to_vec();
        v.extend_from_slice(&b.to_le_bytes());
        v.extend_from_slice(&(self.0 >> 8).to_le_bytes()[..3]);
        v
    }
}

impl std::hash::Hash for Composite {
    fn hash<H: std::hash::Hasher>(&self, state: &mut H) {
        let v = self.bytes();
        state.write_u64(u64::from_le_bytes(v[..8].try_into().unwrap()));
        state.write_u64(u64::from_le_bytes(v[8..16].try_into().unwrap()));
        state.write(&v[16..]);
    }
}

/// the byte sequence an item feeds the hasher
pub fn hashed_bytes(item: u64) -> Vec<u8> {
    if item >> 63 == 1 { Composite(item).bytes() } else { item.to_le_bytes().to_vec() }
}

pub fn type_max(ty: u8) -> u64 {
    match ty % 8 {
        0 => u8::MAX as u64,
        1 => u16::MAX as u64,
        2 => u32::MAX as u64,
        3 => u64::MAX >> 1, // keep model arithmetic comfortably inside u64/f64
        4 => i8::MAX as u64,
        5 => i16::MAX as u64,
        6 => i32::MAX as u64,
        _ => i64::MAX as u64 >> 1,
    }
}

impl Cm {
    pub fn new(ty: u8, h: u8, b: u32, seed: u64) -> Cm {
        match ty % 8 {
            0 => Cm::U8(CountMinSketch::with_seed(h, b, seed)),
            1 => Cm::U16(CountMinSketch::with_seed(h, b, seed)),
            2 => Cm::U32(CountMinSketch::with_seed(h, b, seed)),
            3 => Cm::U64(CountMinSketch::with_seed(h, b, seed)),
            4 => Cm::I8(CountMinSketch::with_seed(h, b, seed)),
            5 => Cm::I16(CountMinSketch::with_seed(h, b, seed)),
            6 => Cm::I32(CountMinSketch::with_seed(h, b, seed)),
            _ => Cm::I64(CountMinSketch::with_seed(h, b, seed)),
        }
    }
    pub fn update(&mut self, item: u64, w: u64) {
        if item >> 63 == 1 {
            let key = Composite(item);
            return match self {
                Cm::U8(s) => s.update_with_weight(key, w as u8),
                Cm::U16(s) => s.update_with_weight(key, w as u16),
                Cm::U32(s) => s.update_with_weight(key, w as u32),
                Cm::U64(s) => s.update_with_weight(key, w),
                Cm::I8(s) => s.update_with_weight(key, w as i8),
                Cm::I16(s) => s.update_with_weight(key, w as i16),
                Cm::I32(s) => s.update_with_weight(key, w as i32),
                Cm::I64(s) => s.update_with_weight(key, w as i64),
            };
        }
        match self {
            Cm::U8(s) => s.update_with_weight(item, w as u8),
            Cm::U16(s) => s.update_with_weight(item, w as u16),
            Cm::U32(s) => s.update_with_weight(item, w as u32),
            Cm::U64(s) => s.update_with_weight(item, w),
            Cm::I8(s) => s.update_with_weight(item, w as i8),
            Cm::I16(s) => s.update_with_weight(item, w as i16),
            Cm::I32(s) => s.update_with_weight(item, w as i32),
            Cm::I64(s) => s.update_with_weight(item, w as i64),
        }
    }
    /// `==` of the two sketches (false for different counter types)
    pub fn same_as(&self, o: &Cm) -> bool {
        match (self, o) {
            (Cm::U8(a), Cm::U8(b)) => a == b && b == a,
            (Cm::U16(a), Cm::U16(b)) => a == b && b == a,
            (Cm::U32(a), Cm::U32(b)) => a == b && b == a,
            (Cm::U64(a), Cm::U64(b)) => a == b && b == a,
            (Cm::I8(a), Cm::I8(b)) => a == b && b == a,
            (Cm::I16(a), Cm::I16(b)) => a == b && b == a,
            (Cm::I32(a), Cm::I32(b)) => a == b && b == a,
            (Cm::I64(a), Cm::I64(b)) => a == b && b == a,
            _ => false,
        }
    }
    pub fn estimate(&self, item: u64) -> u64 {
        if item >> 63 == 1 {
            let key = Composite(item);
            return each!(self, s => s.estimate(&key) as u64);
        }
        each!(self, s => s.estimate(item) as u64)
    }
    pub fn lower_bound(&self, item: u64) -> u64 {
        if item >> 63 == 1 {
            let key = Composite(item);
            return each!(self, s => s.lower_bound(&key) as u64);
        }
        each!(self, s => s.lower_bound(item) as u64)
    }
    pub fn upper_bound(&self, item: u64) -> u64 {
        if item >> 63 == 1 {
            let key = Composite(item);
            return each!(self, s => s.upper_bound(&key) as u64);
        }
        each!(self, s => s.upper_bound(item) as u64)
    }
    pub fn total(&self) -> u64 {
        each!(self, s => s.total_weight() as u64)
    }
    pub fn relative_error(&self) -> f64 {
        each!(self, s => s.relative_error())
    }
    pub fn serialize(&self) -> Vec<u8> {
        each!(self, s => s.serialize())
    }
    pub fn deserialize(ty: u8, b: &[u8], seed: u64) -> Result<Cm, String> {
        let e = |e: datasketches::error::Error| e.to_string();
        Ok(match ty % 8 {
            0 => Cm::U8(CountMinSketch::deserialize_with_seed(b, seed).map_err(e)?),
            1 => Cm::U16(CountMinSketch::deserialize_with_seed(b, seed).map_err(e)?),
            2 => Cm::U32(CountMinSketch::deserialize_with_seed(b, seed).map_err(e)?),
            3 => Cm::U64(CountMinSketch::deserialize_with_seed(b, seed).map_err(e)?),
            4 => Cm::I8(CountMinSketch::deserialize_with_seed(b, seed).map_err(e)?),
            5 => Cm::I16(CountMinSketch::deserialize_with_seed(b, seed).map_err(e)?),
            6 => Cm::I32(CountMinSketch::deserialize_with_seed(b, seed).map_err(e)?),
            _ => Cm::I64(CountMinSketch::deserialize_with_seed(b, seed).map_err(e)?),
        })
    }
    pub fn merge(&mut self, o: &Cm) {
        match (self, o) {
            (Cm::U8(a), Cm::U8(b)) => a.merge(b),
            (Cm::U16(a), Cm::U16(b)) => a.merge(b),
            (Cm::U32(a), Cm::U32(b)) => a.merge(b),
            (Cm::U64(a), Cm::U64(b)) => a.merge(b),
            (Cm::I8(a), Cm::I8(b)) => a.merge(b),
            (Cm::I16(a), Cm::I16(b)) => a.merge(b),
            (Cm::I32(a), Cm::I32(b)) => a.merge(b),
            (Cm::I64(a), Cm::I64(b)) => a.merge(b),
            _ => {}
        }
    }
    pub fn halve(&mut self) {
        match self {
            Cm::U8(s) => s.halve(),
            Cm::U16(s) => s.halve(),
            Cm::U32(s) => s.halve(),
            Cm::U64(s) => s.halve(),
            _ => {}
        }
    }
    pub fn decay(&mut self, d: f64) {
        match self {
            Cm::U8(s) => s.decay(d),
            Cm::U16(s) => s.decay(d),
            Cm::U32(s) => s.decay(d),
            Cm::U64(s) => s.decay(d),
            _ => {}
        }
    }
}

#[derive(Clone)]
pub struct CmModel {
    pub hashes: usize,
    pub buckets: usize,
    pub row_seeds: Vec<u64>,
    pub table: Vec<u64>,
    pub truth: BTreeMap<u64, u64>,
    pub total: u64,
}

impl CmModel {
    pub fn new(hashes: u8, buckets: u32, seed: u64) -> Self {
        let row_seeds = (0..hashes as u64).map(|r| murmur3_x64_128(&r.to_le_bytes(), seed).0).collect();
        CmModel { hashes: hashes as usize, buckets: buckets as usize, row_seeds, table: vec![0; hashes as usize * buckets as usize], truth: BTreeMap::new(), total: 0 }
    }
    pub fn cells(&self, item: u64) -> Vec<usize> {
        self.row_seeds
            .iter()
            .enumerate()
            .map(|(r, &rs)| r * self.buckets + (murmur3_x64_128(&hashed_bytes(item), rs).0 % self.buckets as u64) as usize)
            .collect()
    }
    pub fn update(&mut self, item: u64, w: u64) {
        for c in self.cells(item) {
            self.table[c] += w;
        }
        *self.truth.entry(item).or_insert(0) += w;
        self.total += w;
    }
    pub fn absorb(&mut self, o: &CmModel) {
        for (a, b) in self.table.iter_mut().zip(&o.table) {
            *a += *b;
        }
        for (k, v) in &o.truth {
            *self.truth.entry(*k).or_insert(0) += v;
        }
        self.total += o.total;
    }
}

/// table bytes of a serialized image (offset 24) as u64 (two's complement for signed types)
pub fn image_table(img: &[u8]) -> Option<(u64, Vec<u64>)> {
    if img.len() < 16 {
        return None;
    }
    if img[3] & 1 != 0 {
        return Some((0, vec![]));
    }
    if img.len() < 24 {
        return None;
    }
    let total = u64::from_le_bytes(img[16..24].try_into().unwrap());
    let t = img[24..].chunks_exact(8).map(|c| u64::from_le_bytes(c.try_into().unwrap())).collect();
    Some((total, t))
}

struct Node {
    sk: Cm,
    model: CmModel,
}

struct Msg {
    to: u8,
    bytes: Vec<u8>,
    model: CmModel,
}

fn check_node(name: &str, nd: &Node, probes: &[u64], deep: bool, st: &mut RunStats) -> Result<(), Violation> {
    let tot = lib_call("total_weight", || nd.sk.total())?;
    check!(tot == nd.model.total, "C08.total_weight", "{name}: total_weight {tot} but the exact sum of weights is {}", nd.model.total);
    st.lib_calls += 1;
    if !deep {
        return Ok(());
    }
    let img = lib_call("CountMinSketch::serialize", || nd.sk.serialize())?;
    st.observe(&img);
    let Some((itot, table)) = image_table(&img) else {
        return Err(Violation::new("C08.image_shape", format!("{name}: image of {} bytes", img.len())));
    };
    if nd.model.total == 0 {
        check!(table.is_empty(), "C08.image_shape", "{name}: empty sketch serialized with a table");
    } else {
        check!(itot == nd.model.total, "C08.total_weight", "{name}: image total {itot} vs model {}", nd.model.total);
        if table != nd.model.table {
            let d = table.iter().zip(&nd.model.table).position(|(a, b)| a != b);
            return Err(Violation::new("C08.table", format!("{name}: counter table differs from the model table at index {d:?} (row {:?}): got {:?} want {:?}; table len {} vs {}", d.map(|i| i / nd.model.buckets), d.map(|i| table[i]), d.map(|i| nd.model.table[i]), table.len(), nd.model.table.len())));
        }
    }
    let eps = nd.sk.relative_error();
    let h = nd.model.hashes;
    let slack = (eps * nd.model.total as f64) as u64;
    let mut items: Vec<u64> = nd.model.truth.keys().copied().collect();
    items.extend_from_slice(probes);
    for it in items {
        let t = nd.model.truth.get(&it).copied().unwrap_or(0);
        let e = lib_call("estimate", || nd.sk.estimate(it))?;
        st.lib_calls += 1;
        check!(e >= t, "C08.undercount", "{name}: estimate({it}) = {e} below the true weight {t}");
        check!(e <= nd.model.total, "C08.estimate_gt_total", "{name}: estimate({it}) = {e} exceeds total_weight {}", nd.model.total);
        let lb = nd.sk.lower_bound(it);
        check!(lb <= e, "C08.lb_gt_estimate", "{name}: lower_bound {lb} > estimate {e}");
        // confidence clause: counted per batch
        let ub = lib_call("upper_bound", || nd.sk.upper_bound(it))?;
        check!(ub >= e, "C08.ub_lt_estimate", "{name}: upper_bound({it}) = {ub} below estimate {e} (total {}, relative_error {eps})", nd.model.total);
        st.count(&format!("conf_trials_h{h}"), 1);
        if e > t + slack {
            st.count(&format!("conf_exceed_h{h}"), 1);
        }
    }
    Ok(())
}

impl Scenario for C08 {
    type Cfg = Cfg;
    type Act = Act;
    fn name(&self) -> &'static str {
        "c08_count_min"
    }
    fn runs(&self, tier: Tier) -> u64 {
        match tier {
            Tier::Quick => 30_000,
            Tier::Thorough => 2_000_000,
        }
    }
    fn generate(&self, rng: &mut Rng, _tier: Tier) -> (Cfg, Vec<Act>) {
        let ty = rng.below(8) as u8;
        let hashes = rng.range(1, 8) as u8;
        let buckets = match rng.below(4) {
            0 => 3,
            1 => rng.range(3, 16) as u32,
            _ => rng.range(3, 512) as u32,
        };
        let seed = match rng.below(3) {
            0 => 9001,
            _ => rng.next_u64(),
        };
        let nodes = rng.range(2, 4) as u8;
        let max = type_max(ty);
        let domain = *rng.pick(&[4u64, 30, 300, 3000]);
        let mut acts = vec![];
        let steps = 10 + rng.usize_below(60);
        for _ in 0..steps {
            match rng.below(20) {
                0..=10 => {
                    let n = rng.below(nodes as u64) as u8;
                    let len = 1 + rng.usize_below(60);
                    for _ in 0..len {
                        let w = match rng.below(6) {
                            0 => 0,
                            1 => 1 + rng.below((max / 64).max(1)),
                            _ => 1 + rng.below(3),
                        };
                        let item = if rng.chance(1, 8) { rng.next_u64() } else { rng.below(domain) };
                        acts.push(Act::Update { n, item, w });
                    }
                }
                11..=13 => {
                    let from = rng.below(nodes as u64) as u8;
                    let mut to = rng.below(nodes as u64) as u8;
                    if to == from {
                        to = (to + 1) % nodes;
                    }
                    acts.push(Act::Flush { from, to, wire: rng.chance(2, 3) });
                }
                14..=15 => acts.push(Act::Deliver { pick: if rng.chance(1, 2) { 0 } else { rng.next_u32() } }),
                16 => acts.push(Act::Drop { pick: rng.next_u32() }),
                17 => acts.push(if rng.chance(1, 2) { Act::Halve } else { Act::Decay { pm: *rng.pick(&[1u16, 250, 500, 900, 999, 1000, 1003, 1009, 1014, 1016, 1017, 1019]) } }),
                18 if rng.chance(1, 6) => acts.push(Act::Stranger { to: rng.below(nodes as u64) as u8, collide: rng.chance(2, 3), items: rng.range(1, 40) as u8 }),
                _ => acts.push(Act::Check { n: rng.below(nodes as u64) as u8 }),
            }
        }
        (Cfg { ty, hashes, buckets, seed, nodes }, acts)
    }

    fn execute(&self, cfg: &Cfg, acts: &[Act], st: &mut RunStats) -> Result<(), Violation> {
        let hashes = cfg.hashes.clamp(1, 16);
        let buckets = cfg.buckets.clamp(3, 4096);
        let nn = cfg.nodes.clamp(2, 6) as usize;
        if crate::refhash::seed_hash(cfg.seed) == 0 {
            return Ok(());
        }
        let ty = cfg.ty % 8;
        let max = type_max(ty);
        let unsigned = ty < 4;
        let mut nodes: Vec<Node> = (0..nn).map(|_| Node { sk: Cm::new(ty, hashes, buckets, cfg.seed), model: CmModel::new(hashes, buckets, cfg.seed) }).collect();
        let mut net: Vec<Msg> = vec![];
        let probes: Vec<u64> = (0..8u64).map(|i| 0xdead_0000_0000 + i * 7919).collect();
        st.shape_seq(ty as u64 * 16 + hashes as u64);

        fn merge_bytes(nd: &mut Node, ty: u8, seed: u64, m: &Msg, st: &mut RunStats) -> Result<(), Violation> {
            let other = match lib_call("CountMinSketch::deserialize", || Cm::deserialize(ty, &m.bytes, seed))? {
                Ok(o) => o,
                Err(e) => return Err(Violation::new("C08.valid_image_rejected", format!("an intact image written by serialize() was rejected: {e}"))),
            };
            lib_call("CountMinSketch::merge", || nd.sk.merge(&other))?;
            nd.model.absorb(&m.model);
            st.lib_calls += 2;
            Ok(())
        }

        for act in acts {
            st.ticks += 1;
            match act {
                Act::Update { n, item, w } => {
                    let nd = &mut nodes[*n as usize % nn];
                    // precondition: non-negative weights whose total fits the counter type
                    if nd.model.total.saturating_add(*w) > max {
                        continue;
                    }
                    lib_call("update_with_weight", || nd.sk.update(*item, *w))?;
                    if *w > 0 {
                        nd.model.update(*item, *w);
                    }
                    st.lib_calls += 1;
                    check_node("node", nd, &probes, false, st)?;
                }
                Act::Flush { from, to, wire } => {
                    let (f, t) = (*from as usize % nn, *to as usize % nn);
                    if f == t || nodes[f].model.total.saturating_add(nodes[t].model.total) > max {
                        continue;
                    }
                    if *wire {
                        let bytes = lib_call("CountMinSketch::serialize", || nodes[f].sk.serialize())?;
                        net.push(Msg { to: t as u8, bytes, model: nodes[f].model.clone() });
                    } else {
                        let (a, b) = if f < t {
                            let (x, y) = nodes.split_at_mut(t);
                            (&x[f], &mut y[0])
                        } else {
                            let (x, y) = nodes.split_at_mut(f);
                            (&y[0], &mut x[t])
                        };
                        lib_call("CountMinSketch::merge", || b.sk.merge(&a.sk))?;
                        b.model.absorb(&a.model);
                        st.lib_calls += 1;
                        check_node("node(after in-memory merge)", b, &probes, true, st)?;
                    }
                }
                Act::Deliver { pick } => {
                    if net.is_empty() {
                        continue;
                    }
                    let idx = *pick as usize % net.len();
                    if idx != 0 {
                        st.fault("reorder");
                    }
                    let to = net[idx].to as usize;
                    // a contribution may only be absorbed while the total still fits the type
                    if nodes[to].model.total.saturating_add(net[idx].model.total) > max {
                        net.remove(idx);
                        st.fault("contribution_withheld_total_would_overflow");
                        continue;
                    }
                    let m = net.remove(idx);
                    merge_bytes(&mut nodes[to], ty, cfg.seed, &m, st)?;
                    st.nontrivial = true;
                    check_node("node(after wire merge)", &nodes[to], &probes, true, st)?;
                }
                Act::Drop { .. } => {
                    if !net.is_empty() {
                        st.fault("loss_then_retransmit");
                    }
                }
                Act::Halve | Act::Decay { .. } => {
                    if !unsigned {
                        continue;
                    }
                    st.fault(if matches!(act, Act::Halve) { "epoch_halve" } else { "epoch_decay" });
                    if !net.is_empty() {
                        st.fault("epoch_races_with_inflight");
                    }
                    for nd in nodes.iter_mut() {
                        let d = match act {
                            Act::Halve => {
                                lib_call("halve", || nd.sk.halve())?;
                                None
                            }
                            Act::Decay { pm } => {
                                // 1..=1000: per mille; 1001..=1019: the tiny factors 1e-1 .. 1e-19 (valid: the
                                // documented range is (0, 1]; they matter for counters beyond 2^52)
                                let d = if *pm > 1000 { 10f64.powi(-(((*pm - 1000).min(19)) as i32)) } else { (*pm).clamp(1, 1000) as f64 / 1000.0 };
                                lib_call("decay", || nd.sk.decay(d))?;
                                Some(d)
                            }
                            _ => unreachable!(),
                        };
                        st.lib_calls += 1;
                        let scale = |v: u64| -> u64 {
                            match d {
                                None => v >> 1,
                                Some(d) => (v as f64 * d) as u64,
                            }
                        };
                        // the correspondingly scaled truth
                        for v in nd.model.truth.values_mut() {
                            *v = scale(*v);
                        }
                        // table and total: one-sided demand, then adopt what the sketch holds
                        let img = nd.sk.serialize();
                        let (itot, table) = image_table(&img).unwrap_or((0, vec![]));
                        if table.is_empty() {
                            check!(nd.sk.total() == 0 || nd.model.total == 0, "C08.image_shape", "non-empty sketch serialized without table after epoch");
                            for c in nd.model.table.iter_mut() {
                                *c = scale(*c);
                            }
                            nd.model.total = nd.sk.total();
                        } else {
                            for (i, (c, &r)) in nd.model.table.iter_mut().zip(&table).enumerate() {
                                let lo = scale(*c);
                                // above 2^53 the f64 product may round up: only the lower side is demanded there
                                let hi = if *c < (1 << 53) { *c } else { u64::MAX };
                                check!(r >= lo && r <= hi, "C08.epoch_cell", "after halve/decay cell {i} = {r}, expected between the scaled value {lo} and the old value {c}");
                                *c = r;
                            }
                            let lo = scale(nd.model.total);
                            let hi = if nd.model.total < (1 << 53) { nd.model.total } else { u64::MAX };
                            check!(itot >= lo && itot <= hi, "C08.epoch_total", "after halve/decay total {itot}, expected in [{lo}, {}]", nd.model.total);
                            nd.model.total = itot;
                        }
                        // one-sided guarantee against the scaled truth
                        for (it, t) in nd.model.truth.iter() {
                            let e = nd.sk.estimate(*it);
                            check!(e >= *t, "C08.undercount_after_epoch", "after halve/decay estimate({it}) = {e} below the correspondingly scaled truth {t}");
                        }
                    }
                }
                Act::Check { n } => check_node("node", &nodes[*n as usize % nn], &probes, true, st)?,
                Act::Stranger { to, collide, items } => {
                    // the nearest other seed, or the nearest one with the same 16-bit seed hash
                    let want = crate::refhash::seed_hash(cfg.seed);
                    let mut other_seed = cfg.seed.wrapping_add(1);
                    loop {
                        let h = crate::refhash::seed_hash(other_seed);
                        if h != 0 && (!*collide || h == want) {
                            break;
                        }
                        other_seed = other_seed.wrapping_add(1);
                    }
                    let mut stranger = Cm::new(ty, hashes, buckets, other_seed);
                    for i in 0..(*items).min(60) as u64 {
                        stranger.update(i, 1);
                    }
                    let nd = &mut nodes[*to as usize % nn];
                    if nd.model.total.saturating_add(*items as u64) > max {
                        continue;
                    }
                    st.fault(if *collide { "stranger_with_colliding_seed_hash" } else { "stranger_with_other_seed" });
                    // refusing (the documented panic) is the correct outcome; the replica is untouched
                    if lib_call("CountMinSketch::merge(stranger)", || nd.sk.merge(&stranger)).is_ok() {
                        return Err(Violation::new("C08.merged_sketch_of_other_seed", format!("merge accepted a sketch built with seed {other_seed} into a sketch with seed {} (seed hashes {:#x} / {:#x}): its rows are hashed differently, so the sum no longer bounds any item's weight from above", cfg.seed, crate::refhash::seed_hash(other_seed), want)));
                    }
                    check_node("node(after refusing a stranger)", nd, &probes, true, st)?;
                }
            }
        }
        let pending = std::mem::take(&mut net);
        for m in pending {
            let to = m.to as usize;
            if nodes[to].model.total.saturating_add(m.model.total) > max {
                continue;
            }
            merge_bytes(&mut nodes[to], ty, cfg.seed, &m, st)?;
        }
        for (i, nd) in nodes.iter().enumerate() {
            check_node(&format!("node{i}(final)"), nd, &probes, true, st)?;
        }
        // per-run squared trial count (for the batch-level Hoeffding margin of the confidence clause)
        let h = hashes as usize;
        let m = st.probes.get(&format!("conf_trials_h{h}")).copied().unwrap_or(0);
        st.count(&format!("conf_trials_sq_h{h}"), m * m);
        Ok(())
    }

    fn shrink_action(&self, a: &Act) -> Vec<Act> {
        match a {
            Act::Update { n, item, w } if *w > 1 => vec![Act::Update { n: *n, item: *item, w: 1 }],
            Act::Flush { from, to, wire: true } => vec![Act::Flush { from: *from, to: *to, wire: false }],
            _ => vec![],
        }
    }
}
