//! C06 — CpcUnion equals the OR of its inputs' bit matrices folded to the smallest lg_k.
//!
//! System: 0-6 Workers (lg_k 4..=12, every flavor), 2-3 Aggregators with `CpcUnion(lg_k)` and a
//! root; at-least-once transport (reorder / duplicate / loss); inputs handed over in memory or
//! through serialize/deserialize; to_sketch() taken after every step.

use crate::check;
use crate::core::{RunStats, Scenario, Tier, Violation, lib_call};
use crate::model::cpc::{CpcModel, fold_matrix};
use crate::rng::Rng;
use crate::scen::c05::{deep_check_cpc, gen_row_cols};
use datasketches::cpc::{CpcSketch, CpcUnion};
use serde::{Deserialize, Serialize};

pub struct C06;

#[derive(Clone, Serialize, Deserialize)]
pub struct Cfg {
    pub workers: Vec<u8>,
    /// union lg_k per aggregator; last = root
    pub aggs: Vec<u8>,
    /// update seed shared by every sketch and union of the run (9001 = the library default)
    #[serde(default = "default_seed")]
    pub seed: u64,
}

fn default_seed() -> u64 {
    9001
}

#[derive(Clone, Serialize, Deserialize)]
#[serde(tag = "k")]
pub enum Act {
    WUpdate { w: u8, rc: u32 },
    /// form 0: in memory; 1: serialize() on the wire
    Flush { w: u8, form: u8, to: Vec<u8> },
    Deliver { pick: u32, keep: bool },
    Drop { pick: u32 },
    ToRoot { a: u8, wire: bool },
    Check { a: u8 },
}

struct AggModel {
    cfg_lg_k: u8,
    lg_k: u8,
    m: Vec<u64>,
}

impl AggModel {
    fn new(lg_k: u8) -> Self {
        AggModel { cfg_lg_k: lg_k, lg_k, m: vec![0; 1 << lg_k] }
    }
    fn add(&mut self, src_lg_k: u8, src: &[u64]) {
        if src.iter().all(|&w| w == 0) {
            return; // empty inputs do not reduce lg_k
        }
        if src_lg_k < self.lg_k {
            self.m = fold_matrix(&self.m, src_lg_k);
            self.lg_k = src_lg_k;
        }
        let f = fold_matrix(src, self.lg_k);
        for (a, b) in self.m.iter_mut().zip(f) {
            *a |= b;
        }
    }
    fn popcount(&self) -> u64 {
        self.m.iter().map(|w| w.count_ones() as u64).sum()
    }
}

struct Agg {
    u: CpcUnion,
    model: AggModel,
}

struct Msg {
    to: u8,
    bytes: Vec<u8>,
    lg_k: u8,
    m: Vec<u64>,
}

fn check_agg(name: &str, ag: &Agg, st: &mut RunStats) -> Result<(), Violation> {
    let lg = lib_call("CpcUnion::lg_k", || ag.u.lg_k())?;
    check!(lg == ag.model.lg_k, "C06.union_lg_k", "{name}: union lg_k {lg}, expected min over union ({}) and non-empty inputs = {}", ag.model.cfg_lg_k, ag.model.lg_k);
    let pc = ag.model.popcount();
    let nc = lib_call("CpcUnion::num_coupons", || ag.u.num_coupons())?;
    check!(nc as u64 == pc, "C06.union_num_coupons", "{name}: union num_coupons {nc} but OR of inputs has {pc} bits");
    let r = lib_call("CpcUnion::to_sketch", || ag.u.to_sketch())?;
    st.lib_calls += 3;
    let model = CpcModel { lg_k: ag.model.lg_k, m: ag.model.m.clone(), count: pc };
    // the result sketch must be exactly the sketch of the OR-ed matrix, and internally consistent
    deep_check_cpc(name, &r, &model, st).map_err(|mut v| {
        v.invariant = v.invariant.replace("C05.", "C06.result_");
        v
    })?;
    let f = r.verif_fields();
    if pc > 0 {
        check!(f.merge_flag, "C06.not_marked_merged", "{name}: to_sketch() result of a non-empty union is not marked as merged");
        let img = lib_call("CpcSketch::serialize", || r.serialize())?;
        check!(img.len() >= 8 && img[5] & (1 << 2) == 0, "C06.image_has_hip", "{name}: image of a merged sketch carries the HIP flag (flags {:#x})", img[5]);
        st.observe(&img);
    }
    Ok(())
}

impl Scenario for C06 {
    type Cfg = Cfg;
    type Act = Act;
    fn name(&self) -> &'static str {
        "c06_cpc_union"
    }
    fn runs(&self, tier: Tier) -> u64 {
        match tier {
            Tier::Quick => 150_000,
            Tier::Thorough => 6_000_000,
        }
    }
    fn generate(&self, rng: &mut Rng, tier: Tier) -> (Cfg, Vec<Act>) {
        let hi = if tier == Tier::Quick { 10 } else { 12 };
        let nw = rng.range(1, 6) as usize;
        let workers: Vec<u8> = (0..nw).map(|_| rng.range(4, hi) as u8).collect();
        let na = rng.range(2, 3) as usize;
        let mut aggs: Vec<u8> = (0..na).map(|_| rng.range(4, hi) as u8).collect();
        if rng.chance(1, 2) {
            aggs[1] = aggs[0];
        }
        aggs.push(rng.range(4, hi) as u8);
        let mut acts = vec![];
        // one run in eight starts with a pair of inputs that straddles a flavor threshold across a
        // fold: worker 0 (lg_k L1) holds T2 + j coupons, T2 = 3 * 2^L2 / 32 being the sparse limit at
        // the smaller lg_k L2 of worker 1, of which j + 1 pairs collapse when rows are folded to 2^L2,
        // so the folded count is T2 - 1; worker 1 holds a single coupon that the fold already contains.
        let mut workers = workers;
        let straddle = nw >= 2 && hi >= 8 && rng.chance(1, 8);
        if straddle {
            let l2 = rng.range(6, hi - 1) as u8;
            let l1 = rng.range(l2 as u64 + 1, hi) as u8;
            workers[0] = l1;
            workers[1] = l2;
            aggs[0] = rng.range(l1 as u64, hi.max(l1 as u64)) as u8;
            if rng.chance(1, 2) {
                aggs[1] = aggs[0];
            }
            let t2 = 3usize * (1usize << l2) / 32;
            let j = rng.usize_below(4).min(t2.saturating_sub(2));
            let k2 = 1u32 << l2;
            let mut rows: Vec<u32> = (0..k2).collect();
            rng.shuffle(&mut rows);
            let base: Vec<u32> = rows[..t2 - 1].iter().map(|&r| (r << 6) | rng.geometric(5)).collect();
            for &rc in &base {
                acts.push(Act::WUpdate { w: 0, rc });
            }
            for &rc in base.iter().take(j + 1) {
                // same column, row + 2^L2 * odd: distinct at L1, identical after folding
                let hi_rows = (1u32 << l1) / k2;
                let lift = 1 + rng.below(hi_rows as u64 - 1) as u32;
                acts.push(Act::WUpdate { w: 0, rc: rc + ((lift * k2) << 6) });
            }
            acts.push(Act::WUpdate { w: 1, rc: base[0] });
            let order = rng.chance(1, 2);
            for step in 0..2 {
                let w = if (step == 0) == order { 0 } else { 1 };
                acts.push(Act::Flush { w, form: rng.below(2) as u8, to: vec![0] });
                acts.push(Act::Deliver { pick: 0, keep: false });
                acts.push(Act::Check { a: 0 });
            }
            for step in 0..2 {
                let w = if (step == 0) == order { 1 } else { 0 };
                acts.push(Act::Flush { w, form: rng.below(2) as u8, to: vec![1] });
                acts.push(Act::Deliver { pick: 0, keep: false });
                acts.push(Act::Check { a: 1 });
            }
        }
        // one run in forty: worker 0 is a small sketch filled column by column up to the last window
        // positions (54..59 whole columns, C < 59.375 K), the other workers stay within its columns
        let deep = !straddle && rng.chance(1, 40);
        if deep {
            workers[0] = rng.range(4, 6) as u8;
            let k = 1u32 << workers[0];
            let cols = rng.range(54, 59) as u32;
            for c in 0..cols {
                for r in 0..k {
                    if rng.chance(1, 50) {
                        continue;
                    }
                    acts.push(Act::WUpdate { w: 0, rc: (r << 6) | c });
                }
            }
            for w in 1..nw {
                for _ in 0..rng.below(30) {
                    acts.push(Act::WUpdate { w: w as u8, rc: (rng.next_u32() << 6) | rng.below(cols as u64 - 1) as u32 });
                }
            }
        }
        for (w, &lg_k) in workers.iter().enumerate() {
            if deep || (straddle && w < 2) {
                continue;
            }
            let k = 1usize << lg_k;
            // land in every flavor
            let n = match rng.below(6) {
                0 => 0,
                1 => 1 + rng.usize_below((3 * k / 32).max(1)),
                2 => 3 * k / 32 + rng.usize_below(k / 2),
                3 => k / 2 + rng.usize_below(3 * k),
                _ => 27 * k / 8 + rng.usize_below(8 * k),
            }
            .min(6000);
            if n > 0 {
                for rc in gen_row_cols(rng, lg_k, n, true) {
                    acts.push(Act::WUpdate { w: w as u8, rc });
                }
            }
        }
        let steps = 6 + rng.usize_below(30);
        let mut tail = vec![];
        for _ in 0..steps {
            let to: Vec<u8> = if rng.chance(1, 2) { vec![0, 1] } else { vec![rng.below(na as u64) as u8] };
            match rng.below(14) {
                0..=5 => tail.push(Act::Flush { w: rng.below(nw as u64) as u8, form: rng.below(2) as u8, to }),
                6..=9 => tail.push(Act::Deliver { pick: if rng.chance(1, 2) { 0 } else { rng.next_u32() }, keep: rng.chance(1, 3) }),
                10 => tail.push(Act::Drop { pick: rng.next_u32() }),
                // (not in a deep-fill run: later bursts could carry the nearly full matrix past C = 59.375 K)
                11 if !deep => {
                    let w = rng.below(nw as u64) as u8;
                    for rc in gen_row_cols(rng, workers[w as usize], 40, true) {
                        tail.push(Act::WUpdate { w, rc });
                    }
                }
                12 => tail.push(Act::ToRoot { a: rng.below(na as u64) as u8, wire: rng.chance(1, 2) }),
                _ => tail.push(Act::Check { a: rng.below(na as u64 + 1) as u8 }),
            }
        }
        acts.extend(tail);
        // one run in four uses a non-default update seed for the whole cluster
        let seed = if rng.chance(1, 4) { rng.next_u64() | 1 } else { 9001 };
        (Cfg { workers, aggs, seed }, acts)
    }

    fn execute(&self, cfg: &Cfg, acts: &[Act], st: &mut RunStats) -> Result<(), Violation> {
        if cfg.workers.is_empty() || cfg.aggs.len() < 2 {
            return Ok(());
        }
        let seed = cfg.seed;
        if crate::refhash::seed_hash(seed) == 0 {
            return Ok(()); // documented as unusable
        }
        let mut workers: Vec<(CpcSketch, CpcModel)> = cfg.workers.iter().map(|&l| (CpcSketch::with_seed(l.clamp(4, 16), seed), CpcModel::new(l.clamp(4, 16)))).collect();
        let mut aggs: Vec<Agg> = cfg.aggs.iter().map(|&l| Agg { u: CpcUnion::with_seed(l.clamp(4, 16), seed), model: AggModel::new(l.clamp(4, 16)) }).collect();
        if seed != 9001 {
            st.probe("non_default_update_seed");
        }
        let root = aggs.len() - 1;
        let na = root;
        let nw = workers.len();
        let mut net: Vec<Msg> = vec![];

        let deliver = |ag: &mut Agg, m: &Msg, st: &mut RunStats| -> Result<(), Violation> {
            let sk = match lib_call("CpcSketch::deserialize", || if seed == 9001 { CpcSketch::deserialize(&m.bytes) } else { CpcSketch::deserialize_with_seed(&m.bytes, seed) })? {
                Ok(s) => s,
                Err(e) => return Err(Violation::new("C06.valid_image_rejected", format!("aggregator could not deserialize an intact image: {e}"))),
            };
            lib_call("CpcUnion::update", || ag.u.update(&sk))?;
            st.lib_calls += 2;
            ag.model.add(m.lg_k, &m.m);
            Ok(())
        };

        for act in acts {
            st.ticks += 1;
            match act {
                Act::WUpdate { w, rc } => {
                    let (sk, model) = &mut workers[*w as usize % nw];
                    let rc = rc & (((1u32 << model.lg_k) - 1) << 6 | 63);
                    if rc == u32::MAX {
                        continue;
                    }
                    lib_call("CpcSketch::verif_row_col_update", || sk.verif_row_col_update(rc))?;
                    model.offer(rc);
                    st.lib_calls += 1;
                }
                Act::Flush { w, form, to } => {
                    let (sk, model) = &workers[*w as usize % nw];
                    st.shape_seq(crate::model::cpc::flavor(model.lg_k, model.count) as u64 + 8 * (*form as u64 % 2));
                    if form % 2 == 0 {
                        for &a in to {
                            let ag = &mut aggs[a as usize % na];
                            lib_call("CpcUnion::update", || ag.u.update(sk))?;
                            st.lib_calls += 1;
                            ag.model.add(model.lg_k, &model.m);
                            check_agg("agg(after in-memory update)", ag, st)?;
                        }
                    } else {
                        let bytes = lib_call("CpcSketch::serialize", || sk.serialize())?;
                        st.lib_calls += 1;
                        for &a in to {
                            net.push(Msg { to: a % na as u8, bytes: bytes.clone(), lg_k: model.lg_k, m: model.m.clone() });
                        }
                    }
                }
                Act::Deliver { pick, keep } => {
                    if net.is_empty() {
                        continue;
                    }
                    let idx = *pick as usize % net.len();
                    if idx != 0 {
                        st.fault("reorder");
                    }
                    let to = net[idx].to as usize;
                    if *keep {
                        st.fault("duplicate_delivery");
                        let m = Msg { to: net[idx].to, bytes: net[idx].bytes.clone(), lg_k: net[idx].lg_k, m: net[idx].m.clone() };
                        deliver(&mut aggs[to], &m, st)?;
                    } else {
                        let m = net.remove(idx);
                        deliver(&mut aggs[to], &m, st)?;
                    }
                    st.nontrivial = true;
                    // to_sketch after every step
                    check_agg("agg(after delivery)", &aggs[to], st)?;
                }
                Act::Drop { .. } => {
                    if !net.is_empty() {
                        st.fault("loss_then_retransmit");
                    }
                }
                Act::ToRoot { a, wire } => {
                    let i = *a as usize % na;
                    let r = lib_call("CpcUnion::to_sketch", || aggs[i].u.to_sketch())?;
                    let (lg, m) = (aggs[i].model.lg_k, aggs[i].model.m.clone());
                    if *wire {
                        let bytes = lib_call("CpcSketch::serialize(result)", || r.serialize())?;
                        let msg = Msg { to: root as u8, bytes, lg_k: lg, m };
                        deliver(&mut aggs[root], &msg, st)?;
                        st.fault("result_over_wire");
                    } else {
                        let rt = &mut aggs[root];
                        lib_call("CpcUnion::update(root)", || rt.u.update(&r))?;
                        rt.model.add(lg, &m);
                    }
                    st.lib_calls += 2;
                    check_agg("root", &aggs[root], st)?;
                }
                Act::Check { a } => {
                    let i = *a as usize % aggs.len();
                    check_agg(&format!("agg{i}"), &aggs[i], st)?;
                }
            }
        }
        let pending = std::mem::take(&mut net);
        for m in pending {
            deliver(&mut aggs[m.to as usize], &m, st)?;
        }
        for (i, ag) in aggs.iter().enumerate() {
            check_agg(&format!("agg{i}(final)"), ag, st)?;
        }
        st.shape_seq(aggs[0].model.lg_k as u64);
        Ok(())
    }

    fn shrink_action(&self, a: &Act) -> Vec<Act> {
        match a {
            Act::Flush { w, form, to } if to.len() > 1 => vec![Act::Flush { w: *w, form: *form, to: vec![to[0]] }],
            Act::Flush { w, form, to } if *form != 0 => vec![Act::Flush { w: *w, form: 0, to: to.clone() }],
            Act::ToRoot { a, wire: true } => vec![Act::ToRoot { a: *a, wire: false }],
            _ => vec![],
        }
    }
}
