//! C09 — Bloom filter: no false negatives; bits are exactly the reference hash positions.
//!
//! System: 2-4 nodes holding compatible filters (one size / num_hashes / seed per run); inserts and
//! `contains_and_insert` locally; `union` over an at-least-once network (reorder, duplicate,
//! loss); `intersect` epochs (exactly-once); `invert`, `reset`; images cross the wire through
//! serialize/deserialize; a ForeignWriter contributes images with the dirty bit-count marker.
//! Oracle: exact member set + model bit vector filled with reference XXH64 double hashing.

use crate::check;
use crate::core::{RunStats, Scenario, Tier, Violation, lib_call};
use crate::refhash::xxh64;
use crate::rng::Rng;
use datasketches::bloom::{BloomFilter, BloomFilterBuilder};
use serde::{Deserialize, Serialize};
use std::collections::BTreeSet;

pub struct C09;

#[derive(Clone, Serialize, Deserialize)]
pub struct Cfg {
    pub bits: u64,
    pub hashes: u16,
    pub seed: u64,
    pub nodes: u8,
    /// items offered as text (`&str`) instead of `u64`
    #[serde(default)]
    pub text: bool,
    /// items offered as 4-tuples of u64
    #[serde(default)]
    pub tuple: bool,
}

#[derive(Clone, Serialize, Deserialize)]
#[serde(tag = "k")]
pub enum Act {
    Insert { n: u8, item: u64 },
    ContainsAndInsert { n: u8, item: u64 },
    /// union `from` into `to`; wire = serialize + at-least-once delivery
    Union { from: u8, to: u8, wire: bool },
    Deliver { pick: u32, keep: bool },
    Drop { pick: u32 },
    /// exactly-once epoch: `to` := `to` AND `from`
    Intersect { from: u8, to: u8, wire: bool },
    Invert { n: u8 },
    Reset { n: u8 },
    /// ForeignWriter: image of a filter holding `items`, bit count written as the dirty marker
    ForeignDirty { to: u8, items: Vec<u64> },
    /// separate filter built with_accuracy(n, p) and loaded with n items; counts false positives
    FppProbe { n: u32, p_exp: u8, seed: u64 },
    Check { n: u8 },
}

#[derive(Clone)]
pub struct BloomModel {
    pub words: Vec<u64>,
    pub hashes: u16,
    pub seed: u64,
    pub members: BTreeSet<u64>,
    /// items are offered to the filter as `&str` (text derived from the id) instead of as `u64`
    pub text: bool,
    /// items are offered as a 4-tuple of u64 (four `write_u64` calls, 32 bytes: one XXH64 stripe)
    pub tuple: bool,
}

pub fn item_tuple(id: u64) -> (u64, u64, u64, u64) {
    (id, id.wrapping_mul(0x9E37_79B9_7F4A_7C15), !id, id.rotate_left(9))
}

/// Text form of an item id: 0..=96 lower-case letters (lengths around 31, 63, 95 put the
/// terminator byte that `str` hashing appends on a 32-byte stripe boundary of XXH64).
pub fn item_text(id: u64) -> String {
    let len = (id % 97) as usize;
    let mut x = id.wrapping_mul(0x9E37_79B9_7F4A_7C15) | 1;
    (0..len)
        .map(|_| {
            x ^= x << 13;
            x ^= x >> 7;
            x ^= x << 17;
            (b'a' + (x % 26) as u8) as char
        })
        .collect()
}

impl BloomModel {
    pub fn new(bits: u64, hashes: u16, seed: u64) -> Self {
        BloomModel { words: vec![0; bits.div_ceil(64) as usize], hashes, seed, members: BTreeSet::new(), text: false, tuple: false }
    }
    /// the byte sequence the item's `Hash` implementation feeds the hasher
    fn hashed_bytes(&self, item: u64) -> Vec<u8> {
        if self.tuple {
            let (a, b, c, d) = item_tuple(item);
            let mut v = a.to_le_bytes().to_vec();
            v.extend_from_slice(&b.to_le_bytes());
            v.extend_from_slice(&c.to_le_bytes());
            v.extend_from_slice(&d.to_le_bytes());
            return v;
        }
        if self.text {
            // `impl Hash for str`: the bytes, then 0xff
            let mut b = item_text(item).into_bytes();
            b.push(0xff);
            b
        } else {
            item.to_le_bytes().to_vec()
        }
    }
    pub fn positions(&self, item: u64) -> Vec<usize> {
        let b = self.hashed_bytes(item);
        let h0 = xxh64(&b, self.seed);
        let h1 = xxh64(&b, h0);
        let cap = (self.words.len() * 64) as u64;
        (1..=self.hashes as u64).map(|i| ((h0.wrapping_add(i.wrapping_mul(h1)) >> 1) % cap) as usize).collect()
    }
    pub fn has_bits(&self, item: u64) -> bool {
        self.positions(item).iter().all(|&p| self.words[p / 64] >> (p % 64) & 1 == 1)
    }
    pub fn insert(&mut self, item: u64) {
        for p in self.positions(item) {
            self.words[p / 64] |= 1 << (p % 64);
        }
        self.members.insert(item);
    }
    pub fn popcount(&self) -> u64 {
        self.words.iter().map(|w| w.count_ones() as u64).sum()
    }
}

/// Appendix A layout.
pub fn encode_image(m: &BloomModel, dirty: bool) -> Vec<u8> {
    let pc = m.popcount();
    let empty = pc == 0;
    let mut b = vec![if empty { 3 } else { 4 }, 1, 21, if empty { 4 } else { 0 }];
    b.extend_from_slice(&m.hashes.to_le_bytes());
    b.extend_from_slice(&[0, 0]);
    b.extend_from_slice(&m.seed.to_le_bytes());
    b.extend_from_slice(&(m.words.len() as i32).to_le_bytes());
    b.extend_from_slice(&[0; 4]);
    if !empty {
        b.extend_from_slice(&(if dirty { u64::MAX } else { pc }).to_le_bytes());
        for w in &m.words {
            b.extend_from_slice(&w.to_le_bytes());
        }
    }
    b
}

struct Node {
    f: BloomFilter,
    model: BloomModel,
}

impl Node {
    fn lib_insert(&mut self, item: u64) {
        if self.model.tuple {
            self.f.insert(item_tuple(item))
        } else if self.model.text {
            self.f.insert(item_text(item).as_str())
        } else {
            self.f.insert(item)
        }
    }
    fn lib_contains(&self, item: u64) -> bool {
        if self.model.tuple { self.f.contains(&item_tuple(item)) } else { contains_item(&self.f, self.model.text, item) }
    }
    fn lib_contains_and_insert(&mut self, item: u64) -> bool {
        if self.model.tuple {
            self.f.contains_and_insert(&item_tuple(item))
        } else if self.model.text {
            self.f.contains_and_insert(&item_text(item).as_str())
        } else {
            self.f.contains_and_insert(&item)
        }
    }
}

fn contains_item(f: &BloomFilter, text: bool, item: u64) -> bool {
    if text { f.contains(&item_text(item).as_str()) } else { f.contains(&item) }
}

struct Msg {
    to: u8,
    bytes: Vec<u8>,
    model: BloomModel,
}

fn words_of(f: &BloomFilter, st: &mut RunStats) -> Result<(Vec<u64>, Vec<u8>), Violation> {
    let img = lib_call("BloomFilter::serialize", || f.serialize())?;
    st.lib_calls += 1;
    let words = if img.len() >= 32 && img[3] & 4 == 0 { img[32..].chunks_exact(8).map(|c| u64::from_le_bytes(c.try_into().unwrap())).collect() } else { vec![] };
    Ok((words, img))
}

fn check_node(name: &str, nd: &Node, bits: u64, probes: &[u64], deep: bool, st: &mut RunStats) -> Result<(), Violation> {
    let pc = nd.model.popcount();
    let bu = lib_call("bits_used", || nd.f.bits_used())?;
    check!(bu == pc, "C09.bits_used", "{name}: bits_used {bu} but the array holds {pc} set bits");
    let cap = nd.f.capacity() as u64;
    check!(cap == bits.div_ceil(64) * 64, "C09.capacity", "{name}: capacity {cap} for {bits} requested bits");
    st.lib_calls += 2;
    if !deep {
        return Ok(());
    }
    let (words, img) = words_of(&nd.f, st)?;
    st.observe(&img);
    if pc == 0 {
        check!(words.is_empty() || words.iter().all(|&w| w == 0), "C09.bit_array", "{name}: empty filter serialized with set bits");
    } else if words != nd.model.words {
        let d = words.iter().zip(&nd.model.words).position(|(a, b)| a != b);
        return Err(Violation::new("C09.bit_array", format!("{name}: bit array differs from the reference positions at word {d:?}: got {:#x?} want {:#x?} ({} vs {} words)", d.map(|i| words[i]), d.map(|i| nd.model.words[i]), words.len(), nd.model.words.len())));
    }
    for &it in &nd.model.members {
        let c = lib_call("contains", || nd.lib_contains(it))?;
        st.lib_calls += 1;
        check!(c, "C09.false_negative", "{name}: item {it} was inserted (directly or into a union operand) but contains() is false");
    }
    for &it in probes {
        let c = nd.lib_contains(it);
        let want = pc > 0 && nd.model.has_bits(it);
        check!(c == want, "C09.contains_vs_bits", "{name}: contains({it}) = {c} but the reference positions say {want}");
    }
    // the image must round-trip: every member still contained after serialization
    let back = match lib_call("BloomFilter::deserialize", || BloomFilter::deserialize(&img))? {
        Ok(b) => b,
        Err(e) => return Err(Violation::new("C09.valid_image_rejected", format!("{name}: own image rejected: {e}"))),
    };
    for &it in nd.model.members.iter().take(50) {
        check!(if nd.model.tuple { back.contains(&item_tuple(it)) } else { contains_item(&back, nd.model.text, it) }, "C09.false_negative_after_serialization", "{name}: item {it} lost by serialize/deserialize");
    }
    check!(back.bits_used() == pc, "C09.bits_used", "{name}: bits_used {} after round trip, array holds {pc}", back.bits_used());
    Ok(())
}

impl Scenario for C09 {
    type Cfg = Cfg;
    type Act = Act;
    fn name(&self) -> &'static str {
        "c09_bloom"
    }
    fn runs(&self, tier: Tier) -> u64 {
        match tier {
            Tier::Quick => 20_000,
            Tier::Thorough => 1_500_000,
        }
    }
    fn generate(&self, rng: &mut Rng, _tier: Tier) -> (Cfg, Vec<Act>) {
        if rng.chance(1, 4000) {
            // spot run: two filters of 2^32 bits (512 MiB each; valid, the documented maximum is
            // larger), saturated by invert(): set-bit counts beyond u32::MAX in union / intersect
            return (Cfg { bits: 1 << 32, hashes: 1, seed: rng.next_u64(), nodes: 2, text: false, tuple: false }, vec![]);
        }
        let bits = match rng.below(8) {
            0 => 1,
            1 => *rng.pick(&[63u64, 64, 65, 127, 128, 129]),
            2 => rng.range(1, 200),
            3 => 1 << 16,
            _ => rng.range(1, 1 << 14),
        };
        let hashes = match rng.below(5) {
            0 => 1,
            1 => 16,
            _ => rng.range(1, 16) as u16,
        };
        let seed = match rng.below(4) {
            0 => 0,
            1 => 9001,
            _ => rng.next_u64(),
        };
        let nodes = rng.range(2, 4) as u8;
        let domain = *rng.pick(&[20u64, 200, 5000]);
        let mut acts = vec![];
        let steps = 10 + rng.usize_below(50);
        let two = |rng: &mut Rng| {
            let a = rng.below(nodes as u64) as u8;
            let mut b = rng.below(nodes as u64) as u8;
            if a == b {
                b = (b + 1) % nodes;
            }
            (a, b)
        };
        for _ in 0..steps {
            match rng.below(24) {
                0..=9 => {
                    let n = rng.below(nodes as u64) as u8;
                    for _ in 0..1 + rng.usize_below(40) {
                        let item = if rng.chance(1, 6) { rng.next_u64() } else { rng.below(domain) };
                        if rng.chance(1, 4) {
                            acts.push(Act::ContainsAndInsert { n, item });
                        } else {
                            acts.push(Act::Insert { n, item });
                        }
                    }
                }
                10..=13 => {
                    let (from, to) = two(rng);
                    acts.push(Act::Union { from, to, wire: rng.chance(2, 3) });
                }
                14..=16 => acts.push(Act::Deliver { pick: if rng.chance(1, 2) { 0 } else { rng.next_u32() }, keep: rng.chance(1, 3) }),
                17 => acts.push(Act::Drop { pick: rng.next_u32() }),
                18 => {
                    let (from, to) = two(rng);
                    acts.push(Act::Intersect { from, to, wire: rng.chance(1, 2) });
                }
                19 => acts.push(if rng.chance(2, 3) { Act::Invert { n: rng.below(nodes as u64) as u8 } } else { Act::Reset { n: rng.below(nodes as u64) as u8 } }),
                20 => {
                    let items = (0..rng.below(30)).map(|_| rng.below(domain)).collect();
                    acts.push(Act::ForeignDirty { to: rng.below(nodes as u64) as u8, items });
                }
                21 => {
                    if rng.chance(1, 4) {
                        acts.push(Act::FppProbe { n: rng.range(50, 1500) as u32, p_exp: rng.range(1, 3) as u8, seed: rng.next_u64() });
                    }
                }
                _ => acts.push(Act::Check { n: rng.below(nodes as u64) as u8 }),
            }
        }
        // one run in three offers its items as text
        let text = rng.chance(1, 3);
        let tuple = !text && rng.chance(1, 3);
        (Cfg { bits, hashes, seed, nodes, text, tuple }, acts)
    }

    fn execute(&self, cfg: &Cfg, acts: &[Act], st: &mut RunStats) -> Result<(), Violation> {
        if cfg.bits == 1 << 32 {
            let all = 1u64 << 32;
            let mk = || BloomFilterBuilder::with_size(all, 1).seed(cfg.seed).build();
            let (mut f, mut g) = (lib_call("build(2^32 bits)", mk)?, lib_call("build(2^32 bits)", mk)?);
            lib_call("invert", || {
                f.invert();
                g.invert();
            })?;
            check!(f.bits_used() == all && !f.is_empty(), "C09.bits_used", "inverted empty filter of 2^32 bits: bits_used {}", f.bits_used());
            lib_call("union(saturated)", || f.union(&g))?;
            check!(f.bits_used() == all && !f.is_empty() && f.contains(&7u64), "C09.bits_used", "union of two saturated 2^32-bit filters: bits_used {} is_empty {}", f.bits_used(), f.is_empty());
            lib_call("intersect(saturated)", || f.intersect(&g))?;
            check!(f.bits_used() == all && !f.is_empty() && f.contains(&7u64), "C09.bits_used", "intersection of two saturated 2^32-bit filters: bits_used {} is_empty {}", f.bits_used(), f.is_empty());
            g.reset();
            g.insert(7u64);
            lib_call("intersect(one item)", || f.intersect(&g))?;
            check!(f.bits_used() == 1 && f.contains(&7u64), "C09.bits_used", "saturated AND one-item filter: bits_used {}", f.bits_used());
            st.probe("filter_of_2_pow_32_bits");
            st.nontrivial = true;
            return Ok(());
        }
        let bits = cfg.bits.clamp(1, 1 << 20);
        let hashes = cfg.hashes.clamp(1, 64);
        let nn = cfg.nodes.clamp(2, 6) as usize;
        let mk = || BloomFilterBuilder::with_size(bits, hashes).seed(cfg.seed).build();
        let mut nodes: Vec<Node> = (0..nn)
            .map(|_| {
                let mut model = BloomModel::new(bits, hashes, cfg.seed);
                model.text = cfg.text;
                model.tuple = cfg.tuple;
                Node { f: mk(), model }
            })
            .collect();
        if cfg.text {
            st.probe("text_items");
        }
        let mut net: Vec<Msg> = vec![];
        let probes: Vec<u64> = (0..16u64).map(|i| 0xbeef_0000_0000 + i * 104729).collect();
        st.shape_seq(hashes as u64 * 8 + (bits % 64 == 0) as u64);

        fn union_bytes(nd: &mut Node, m: &Msg, st: &mut RunStats) -> Result<(), Violation> {
            let other = match lib_call("BloomFilter::deserialize", || BloomFilter::deserialize(&m.bytes))? {
                Ok(o) => o,
                Err(e) => return Err(Violation::new("C09.valid_image_rejected", format!("an intact image was rejected: {e}"))),
            };
            check!(nd.f.is_compatible(&other), "C09.compatibility_lost", "a filter of the same size / hashes / seed is reported incompatible after crossing the wire");
            lib_call("BloomFilter::union", || nd.f.union(&other))?;
            st.lib_calls += 2;
            for (a, b) in nd.model.words.iter_mut().zip(&m.model.words) {
                *a |= *b;
            }
            nd.model.members.extend(m.model.members.iter().copied());
            Ok(())
        }

        for act in acts {
            st.ticks += 1;
            match act {
                Act::Insert { n, item } => {
                    let nd = &mut nodes[*n as usize % nn];
                    lib_call("BloomFilter::insert", || nd.lib_insert(*item))?;
                    nd.model.insert(*item);
                    st.lib_calls += 1;
                    check_node("node", nd, bits, &probes, false, st)?;
                }
                Act::ContainsAndInsert { n, item } => {
                    let nd = &mut nodes[*n as usize % nn];
                    let want = nd.model.has_bits(*item);
                    let got = lib_call("BloomFilter::contains_and_insert", || nd.lib_contains_and_insert(*item))?;
                    check!(got == want, "C09.contains_and_insert", "contains_and_insert({item}) returned {got}; prior membership by reference positions is {want}");
                    nd.model.insert(*item);
                    st.lib_calls += 1;
                    check_node("node", nd, bits, &probes, false, st)?;
                }
                Act::Union { from, to, wire } | Act::Intersect { from, to, wire } => {
                    let (f, t) = (*from as usize % nn, *to as usize % nn);
                    if f == t {
                        continue;
                    }
                    let is_union = matches!(act, Act::Union { .. });
                    if is_union && *wire {
                        let bytes = lib_call("BloomFilter::serialize", || nodes[f].f.serialize())?;
                        net.push(Msg { to: t as u8, bytes, model: nodes[f].model.clone() });
                        continue;
                    }
                    // in-memory union, or an intersect epoch (exactly-once: applied once, now),
                    // optionally with the operand passed through serialize/deserialize
                    let operand: BloomFilter = if *wire {
                        let b = lib_call("BloomFilter::serialize", || nodes[f].f.serialize())?;
                        match lib_call("BloomFilter::deserialize", || BloomFilter::deserialize(&b))? {
                            Ok(o) => o,
                            Err(e) => return Err(Violation::new("C09.valid_image_rejected", format!("an intact image was rejected: {e}"))),
                        }
                    } else {
                        nodes[f].f.clone()
                    };
                    let om = nodes[f].model.clone();
                    let nd = &mut nodes[t];
                    if is_union {
                        lib_call("BloomFilter::union", || nd.f.union(&operand))?;
                        for (a, b) in nd.model.words.iter_mut().zip(&om.words) {
                            *a |= *b;
                        }
                        nd.model.members.extend(om.members.iter().copied());
                    } else {
                        lib_call("BloomFilter::intersect", || nd.f.intersect(&operand))?;
                        for (a, b) in nd.model.words.iter_mut().zip(&om.words) {
                            *a &= *b;
                        }
                        // items inserted into both operands survive
                        nd.model.members = nd.model.members.intersection(&om.members).copied().collect();
                        st.fault("intersect_epoch");
                    }
                    st.lib_calls += 1;
                    check_node("node(after set op)", nd, bits, &probes, true, st)?;
                }
                Act::Deliver { pick, keep } => {
                    if net.is_empty() {
                        continue;
                    }
                    let idx = *pick as usize % net.len();
                    if idx != 0 {
                        st.fault("reorder");
                    }
                    let to = net[idx].to as usize;
                    if *keep {
                        st.fault("duplicate_delivery");
                        let m = Msg { to: net[idx].to, bytes: net[idx].bytes.clone(), model: net[idx].model.clone() };
                        union_bytes(&mut nodes[to], &m, st)?;
                    } else {
                        let m = net.remove(idx);
                        union_bytes(&mut nodes[to], &m, st)?;
                    }
                    st.nontrivial = true;
                    check_node("node(after wire union)", &nodes[to], bits, &probes, true, st)?;
                }
                Act::Drop { .. } => {
                    if !net.is_empty() {
                        st.fault("loss_then_retransmit");
                    }
                }
                Act::Invert { n } => {
                    let nd = &mut nodes[*n as usize % nn];
                    lib_call("BloomFilter::invert", || nd.f.invert())?;
                    for w in nd.model.words.iter_mut() {
                        *w = !*w;
                    }
                    nd.model.members.clear(); // no membership promise survives an inversion
                    st.fault("invert");
                    check_node("node(after invert)", nd, bits, &probes, true, st)?;
                }
                Act::Reset { n } => {
                    let nd = &mut nodes[*n as usize % nn];
                    lib_call("BloomFilter::reset", || nd.f.reset())?;
                    nd.model = BloomModel::new(bits, hashes, cfg.seed);
                    nd.model.text = cfg.text;
                    nd.model.tuple = cfg.tuple;
                    st.fault("reset");
                    check_node("node(after reset)", nd, bits, &probes, true, st)?;
                }
                Act::ForeignDirty { to, items } => {
                    let mut m = BloomModel::new(bits, hashes, cfg.seed);
                    m.text = cfg.text;
                    m.tuple = cfg.tuple;
                    for &it in items {
                        m.insert(it);
                    }
                    let bytes = encode_image(&m, true);
                    st.fault("foreign_dirty_bit_count");
                    net.push(Msg { to: *to % nn as u8, bytes, model: m });
                }
                Act::FppProbe { n, p_exp, seed } => {
                    let p_exp = (*p_exp).clamp(1, 3);
                    let p = 10f64.powi(-(p_exp as i32));
                    let n = (*n).clamp(10, 5000) as u64;
                    let mut f = lib_call("BloomFilterBuilder::with_accuracy", || BloomFilterBuilder::with_accuracy(n, p).seed(*seed).build())?;
                    for i in 0..n {
                        f.insert(i.wrapping_mul(0x9E37_79B9_7F4A_7C15) ^ *seed);
                    }
                    let trials = 2000u64;
                    let mut fp = 0u64;
                    for i in 0..trials {
                        // fresh probes, disjoint from the inserted items by construction
                        if f.contains(&((n + 1 + i).wrapping_mul(0x9E37_79B9_7F4A_7C15) ^ *seed)) {
                            fp += 1;
                        }
                    }
                    st.lib_calls += n + trials;
                    st.count(&format!("fpp_trials_p1e-{p_exp}"), trials);
                    st.count(&format!("fpp_false_positives_p1e-{p_exp}"), fp);
                    st.count(&format!("fpp_trials_sq_p1e-{p_exp}"), trials * trials);
                }
                Act::Check { n } => check_node("node", &nodes[*n as usize % nn], bits, &probes, true, st)?,
            }
        }
        let pending = std::mem::take(&mut net);
        for m in pending {
            let to = m.to as usize;
            union_bytes(&mut nodes[to], &m, st)?;
        }
        for (i, nd) in nodes.iter().enumerate() {
            check_node(&format!("node{i}(final)"), nd, bits, &probes, true, st)?;
        }
        Ok(())
    }

    fn shrink_action(&self, a: &Act) -> Vec<Act> {
        match a {
            Act::Union { from, to, wire: true } => vec![Act::Union { from: *from, to: *to, wire: false }],
            Act::ForeignDirty { to, items } if items.len() > 1 => vec![Act::ForeignDirty { to: *to, items: items[..items.len() / 2].to_vec() }],
            _ => vec![],
        }
    }
}
