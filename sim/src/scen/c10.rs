//! C10 / C15 — t-digest: one cluster, two oracle sets.
//!
//! System: 1-8 nodes with `TDigestMut(k)` fed value streams of many shapes; a PRNG-drawn merge
//! DAG; exactly-once transport (reorder, loss/retransmit); flush forms: borrowed digest,
//! serialize/deserialize, freeze->unfreeze; framed checkpoints with crash/restart; ForeignWriter
//! digests (valid sorted positive-weight centroid lists the in-process algorithm never produces:
//! heavy first/last centroids, f32 form, reference-implementation forms) enter as contributions.
//!
//! mode 0 (C10): rank/quantile monotone, in range, mutually consistent; cdf/pmf; weight, min, max.
//! mode 1 (C15): centroid count / image size bounded by k; conservation; rank error vs exact data.

use crate::check;
use crate::core::{RunStats, Scenario, Tier, Violation, lib_call};
use crate::rng::Rng;
use crate::scen::c07::{frame, unframe};
use crate::speccodec::td as codec;
use datasketches::tdigest::{TDigest, TDigestMut};
use serde::{Deserialize, Serialize};

pub struct TdScen {
    pub mode: u8,
}

#[derive(Clone, Serialize, Deserialize)]
pub struct Cfg {
    pub ks: Vec<u16>,
}

#[derive(Clone, Serialize, Deserialize)]
#[serde(tag = "k")]
pub enum Act {
    /// one value given by its bit pattern (so that NaN / infinities survive the replay file)
    Update { n: u8, bits: u64 },
    /// `len` values of a stream shape drawn from `seed`
    Stream { n: u8, shape: u8, len: u32, seed: u64, scale_exp: i16 },
    /// form 0: borrowed digest; 1: serialize() image on the wire; 2: freeze -> unfreeze -> merge
    Flush { from: u8, to: u8, form: u8 },
    Deliver { pick: u32 },
    Drop { pick: u32 },
    Checkpoint { n: u8, sync: bool },
    Crash { n: u8, torn: bool },
    /// foreign digest: centroid list (mean bits, weight), sorted by the executor; form per speccodec
    Foreign { to: u8, kk: u16, cents: Vec<(u64, u64)>, pad_min: bool, pad_max: bool, form: u8 },
    Check { n: u8 },
}

pub fn gen_value(rng: &mut Rng, shape: u8, i: u64, len: u64, scale: f64) -> f64 {
    match shape % 10 {
        0 => i as f64 * scale,                                     // sorted
        1 => (len - i) as f64 * scale,                             // reversed
        2 => rng.f64() * scale,                                    // uniform
        3 => (rng.below(5)) as f64 * scale,                        // heavy duplicates
        4 => ((rng.below(4) * 1000) as f64 + rng.f64()) * scale,   // clustered
        5 => (rng.f64() - 0.5) * 2.0 * scale,                      // mixed signs
        6 => {
            // huge magnitude range, mixed signs
            let e = rng.range(0, 600) as i32 - 300;
            let m = 1.0 + rng.f64();
            let v = m * 10f64.powi(e);
            if rng.chance(1, 2) { v } else { -v }
        }
        7 => {
            // +-0.0, tiny values, and the largest finite magnitudes (differences of two of them overflow)
            match rng.below(6) {
                0 => 0.0,
                1 => -0.0,
                2 => f64::MIN_POSITIVE * rng.f64(),
                3 => {
                    let v = if rng.chance(1, 2) { f64::MAX } else { (1.0 + 0.79 * rng.f64()) * 1e308 };
                    if rng.chance(1, 2) { v } else { -v }
                }
                _ => rng.f64() * scale,
            }
        }
        8 => {
            // approx normal (sum of uniforms)
            let s: f64 = (0..6).map(|_| rng.f64()).sum();
            (s - 3.0) * scale
        }
        _ => {
            // exponential-ish heavy tail
            -(1.0 - rng.f64()).ln() * scale
        }
    }
}

struct Node {
    d: TDigestMut,
    k: u16,
    /// smallest k among all digests in the ancestry (accuracy is bounded by the coarsest one)
    k_min: u16,
    /// exact multiset of finite values (None once a foreign digest is in the ancestry)
    exact: Option<Vec<f64>>,
    sorted: bool,
    count: u64,
    min: f64,
    max: f64,
    gens: Vec<(Vec<u8>, bool, usize)>,
    wal: Vec<Wal>,
    next_pow2: u64,
}

#[derive(Clone)]
enum Wal {
    Update(f64),
    Merge(Vec<u8>, bool),
}

struct Msg {
    to: u8,
    k_min: u16,
    bytes: Vec<u8>,
    exact: Option<Vec<f64>>,
    count: u64,
    min: f64,
    max: f64,
}

impl Node {
    fn new(k: u16) -> Self {
        Node { d: TDigestMut::new(k), k, k_min: k, exact: Some(vec![]), sorted: true, count: 0, min: f64::INFINITY, max: f64::NEG_INFINITY, gens: vec![], wal: vec![], next_pow2: 1 }
    }
    fn absorb(&mut self, exact: &Option<Vec<f64>>, count: u64, min: f64, max: f64) {
        match (&mut self.exact, exact) {
            (Some(a), Some(b)) => {
                a.extend_from_slice(b);
                self.sorted = false;
            }
            _ => self.exact = None,
        }
        self.count += count;
        if count > 0 {
            self.min = self.min.min(min);
            self.max = self.max.max(max);
        }
    }
}

fn sorted_exact(nd: &mut Node) -> Option<&Vec<f64>> {
    if let Some(v) = &mut nd.exact {
        if !nd.sorted {
            v.sort_by(|a, b| a.partial_cmp(b).unwrap());
            nd.sorted = true;
        }
    }
    nd.exact.as_ref()
}

const RANK_EPS: f64 = 1e-12;

/// The calibrated constant of the C15 accuracy clause (see DESIGN.md C15): 3x the largest ratio
/// observed over the thorough calibration batch on the unchanged tree (40 000 thorough-tier runs,
/// seed 20260926, data of ordinary magnitude span: largest ratio 3.81).
pub const C15_ACCURACY_C: f64 = 12.0;

impl TdScen {
    fn c10(&self) -> bool {
        self.mode == 0
    }

    fn check_node(&self, name: &str, nd: &mut Node, st: &mut RunStats) -> Result<(), Violation> {
        let tw = lib_call("total_weight", || nd.d.total_weight())?;
        st.lib_calls += 1;
        if self.c10() {
            check!(tw == nd.count, "C10.total_weight", "{name}: total_weight {tw} but {} finite values were offered (summed across merges)", nd.count);
        } else {
            check!(tw == nd.count, "C15.total_weight", "{name}: total_weight {tw} vs {} values", nd.count);
        }
        if nd.count == 0 {
            if self.c10() {
                check!(nd.d.is_empty() && nd.d.min_value().is_none() && nd.d.rank(0.0).is_none() && nd.d.quantile(0.5).is_none(), "C10.empty", "{name}: empty digest answers queries");
            }
            return Ok(());
        }
        let (mn, mx) = (nd.d.min_value().unwrap_or(f64::NAN), nd.d.max_value().unwrap_or(f64::NAN));
        if self.c10() {
            check!(mn == nd.min && mx == nd.max, "C10.min_max", "{name}: min/max {mn}/{mx} but the exact extremes are {}/{}", nd.min, nd.max);
        }
        let k = nd.k;
        let nd_k_min = nd.k_min;
        let img = lib_call("TDigestMut::serialize", || nd.d.serialize())?;
        st.lib_calls += 1;
        st.observe(&img);
        let dec = match codec::decode(&img, false) {
            Ok(d) => d,
            Err(e) => {
                return Err(Violation::new(if self.c10() { "C10.image_undecodable" } else { "C15.image_undecodable" }, format!("{name}: own image rejected by the independent decoder: {e}")));
            }
        };
        let cents = &dec.centroids;
        let w = nd.count as f64;
        if !self.c10() {
            // ---- C15: size, conservation, order
            let cap = 2 * k as usize + 30;
            check!(cents.len() <= cap, "C15.centroid_count", "{name}: {} centroids for k={k} (bound 2k+30 = {cap})", cents.len());
            check!(img.len() <= 16 * cap + 32, "C15.image_size", "{name}: image of {} bytes for k={k} (bound {})", img.len(), 16 * cap + 32);
            let sum: u64 = cents.iter().map(|c| c.1).sum();
            check!(sum == nd.count && dec.buffered.is_empty(), "C15.weight_conservation", "{name}: centroid weights sum to {sum} (+{} buffered) but total_weight is {}", dec.buffered.len(), nd.count);
            for i in 0..cents.len() {
                check!(cents[i].1 > 0, "C15.zero_weight_centroid", "{name}: centroid {i} has weight 0");
                check!(cents[i].0 >= mn && cents[i].0 <= mx, "C15.mean_out_of_range", "{name}: centroid {i} mean {} outside [min {mn}, max {mx}]", cents[i].0);
                if i > 0 {
                    check!(cents[i - 1].0 <= cents[i].0, "C15.means_unsorted", "{name}: centroid means not sorted at {i}: {} > {}", cents[i - 1].0, cents[i].0);
                }
            }
            st.maximum("centroids_over_2k", cents.len() as f64 / (2.0 * k as f64));
        }
        // ---- grids
        let span = mx - mn;
        let delta = if span > 0.0 && span.is_finite() { span * 0.01 } else { mx.abs().max(1e-300) * 0.01 + f64::MIN_POSITIVE };
        let mut grid: Vec<f64> = vec![];
        for i in 0..=256 {
            let t = i as f64 / 256.0;
            let v = (mn - delta) + t * ((mx + delta) - (mn - delta));
            if v.is_finite() {
                grid.push(v);
            }
        }
        let step = (cents.len() / 48).max(1);
        for c in cents.iter().step_by(step) {
            grid.push(c.0);
            grid.push(f64::from_bits(c.0.to_bits().wrapping_add(1)));
            grid.push(f64::from_bits(c.0.to_bits().wrapping_sub(1)));
        }
        grid.push(mn);
        grid.push(mx);
        grid.retain(|v| v.is_finite());
        grid.sort_by(|a, b| a.partial_cmp(b).unwrap());
        let frozen: TDigest = lib_call("clone().freeze()", || nd.d.clone().freeze())?;
        if self.c10() {
            let mut prev = -1.0f64;
            for &v in &grid {
                let r = lib_call("rank", || nd.d.rank(v))?.unwrap_or(f64::NAN);
                st.lib_calls += 1;
                check!((0.0..=1.0).contains(&r), "C10.rank_range", "{name}: rank({v:e}) = {r} outside [0,1] (min {mn:e} max {mx:e}, weight {w})");
                if v < mn {
                    check!(r == 0.0, "C10.rank_below_min", "{name}: rank({v:e}) = {r} below min {mn:e}");
                }
                if v > mx {
                    check!(r == 1.0, "C10.rank_above_max", "{name}: rank({v:e}) = {r} above max {mx:e}");
                }
                if r < prev - RANK_EPS {
                    // sub-class: an extreme centroid that is a singleton although min / max lie beyond it
                    // (only reachable by merging a foreign heavy-tailed digest with local data)
                    let (fm, fw) = cents[0];
                    let (lm, lw) = cents[cents.len() - 1];
                    let sub = if (lw == 1 && mx > lm && v >= lm - lm.abs() * 4e-16 - f64::MIN_POSITIVE) || (fw == 1 && mn < fm && v <= cents.get(1).map(|c| c.0).unwrap_or(fm)) { "|singleton_extreme_centroid_strictly_inside_min_max" } else { "" };
                    let viol = Violation::new(format!("C10.rank_not_monotone{sub}"), format!("{name}: rank decreases: rank(prev) = {prev} > rank({v:e}) = {r} (first centroid ({fm:e}, w{fw}), last ({lm:e}, w{lw}), min {mn:e}, max {mx:e}, weight {w})"));
                    if sub.is_empty() {
                        return Err(viol);
                    }
                    // the narrowly identified sub-class is recorded and the run continues, so that it
                    // does not hide anything else the run would have found
                    st.record(viol);
                }
                prev = prev.max(r);
                let rf = frozen.rank(v).unwrap_or(f64::NAN);
                check!(rf.to_bits() == r.to_bits(), "C10.frozen_differs", "{name}: frozen digest rank({v:e}) = {rf} vs mutable {r}");
            }
            // quantiles
            let mut qs: Vec<f64> = (0..=256).map(|i| i as f64 / 256.0).collect();
            qs.push(1e-12);
            qs.push(1.0 - 1e-12);
            qs.sort_by(|a, b| a.partial_cmp(b).unwrap());
            let tol = 1e-12 * mn.abs().max(mx.abs()).max(f64::MIN_POSITIVE);
            let mut prevq = f64::NEG_INFINITY;
            for &q in &qs {
                let v = lib_call("quantile", || nd.d.quantile(q))?.unwrap_or(f64::NAN);
                st.lib_calls += 1;
                check!(v >= mn - tol && v <= mx + tol, "C10.quantile_range", "{name}: quantile({q}) = {v:e} outside [min {mn:e}, max {mx:e}]");
                check!(v >= prevq - tol, "C10.quantile_not_monotone", "{name}: quantile decreases at q={q}: {prevq:e} -> {v:e}");
                prevq = prevq.max(v);
                let vf = frozen.quantile(q).unwrap_or(f64::NAN);
                check!(vf.to_bits() == v.to_bits(), "C10.frozen_differs", "{name}: frozen digest quantile({q}) = {vf:e} vs mutable {v:e}");
                // rank(quantile(q)) within the digest's own resolution around the answer
                let r = nd.d.rank(v).unwrap_or(f64::NAN);
                let lo_mean = cents.iter().map(|c| c.0).filter(|m| *m <= v).fold(f64::NEG_INFINITY, f64::max);
                let hi_mean = cents.iter().map(|c| c.0).filter(|m| *m >= v).fold(f64::INFINITY, f64::min);
                // means that differ only by floating-point rounding belong to the same tie run
                let near = |a: f64, b: f64| (a - b).abs() <= 1e-12 * a.abs().max(b.abs()).max(f64::MIN_POSITIVE);
                let w_lo: u64 = cents.iter().filter(|c| near(c.0, lo_mean) || near(c.0, v)).map(|c| c.1).sum();
                let w_hi: u64 = cents.iter().filter(|c| near(c.0, hi_mean) || near(c.0, v)).map(|c| c.1).sum();
                let bound = (w_lo + w_hi) as f64 / w + 1.0 / w + 1e-9;
                if (r - q).abs() > bound {
                    let pos = cents.partition_point(|c| c.0 < v);
                    let near: Vec<String> = (pos.saturating_sub(3)..(pos + 3).min(cents.len())).map(|i| format!("[{i}]({:e},w{})", cents[i].0, cents[i].1)).collect();
                    let cum: u64 = cents[..pos].iter().map(|c| c.1).sum();
                    return Err(Violation::new("C10.rank_quantile_inconsistent", format!("{name}: rank(quantile({q})) = {r} (quantile {v:e}); resolution bound {bound} (neighbour weights {w_lo}+{w_hi} of {w}); weight below {cum}; centroids near: {}", near.join(" "))));
                }
            }
            check!(nd.d.quantile(0.0) == Some(mn) && nd.d.quantile(1.0) == Some(mx), "C10.quantile_extremes", "{name}: quantile(0) = {:?}, quantile(1) = {:?}; min {mn:e} max {mx:e}", nd.d.quantile(0.0), nd.d.quantile(1.0));
            // cdf / pmf with split lists of length 0, 1, 2, 17
            for n_sp in [0usize, 1, 2, 17] {
                let sp: Vec<f64> = if n_sp == 0 {
                    vec![]
                } else {
                    let mut v: Vec<f64> = (0..n_sp).map(|i| (mn - delta) + (i as f64 + 0.5) / n_sp as f64 * ((mx + delta) - (mn - delta))).filter(|x| x.is_finite()).collect();
                    v.dedup();
                    let mut ok = true;
                    for i in 1..v.len() {
                        if !(v[i - 1] < v[i]) {
                            ok = false;
                        }
                    }
                    if !ok {
                        continue;
                    }
                    v
                };
                let cdf = lib_call("cdf", || nd.d.cdf(&sp))?;
                let pmf = lib_call("pmf", || nd.d.pmf(&sp))?;
                st.lib_calls += 2;
                let (Some(cdf), Some(pmf)) = (cdf, pmf) else {
                    return Err(Violation::new("C10.cdf_none", format!("{name}: cdf/pmf returned None for a non-empty digest")));
                };
                check!(cdf.len() == sp.len() + 1 && pmf.len() == sp.len() + 1, "C10.cdf_len", "{name}: cdf/pmf length {} / {} for {} split points", cdf.len(), pmf.len(), sp.len());
                check!(*cdf.last().unwrap() == 1.0, "C10.cdf_last", "{name}: last cdf element {}", cdf.last().unwrap());
                let mut sum = 0.0;
                for i in 0..sp.len() {
                    let r = nd.d.rank(sp[i]).unwrap_or(f64::NAN);
                    check!(cdf[i].to_bits() == r.to_bits(), "C10.cdf_vs_rank", "{name}: cdf[{i}] = {} but rank({:e}) = {r}", cdf[i], sp[i]);
                }
                for i in 0..pmf.len() {
                    let want = if i == 0 { cdf[0] } else { cdf[i] - cdf[i - 1] };
                    check!((pmf[i] - want).abs() <= 1e-12, "C10.pmf_vs_cdf", "{name}: pmf[{i}] = {} but cdf difference is {want}", pmf[i]);
                    sum += pmf[i];
                }
                check!((sum - 1.0).abs() <= 1e-9, "C10.pmf_sum", "{name}: pmf sums to {sum}");
                let cf = frozen.cdf(&sp);
                check!(cf.as_ref() == Some(&cdf), "C10.frozen_differs", "{name}: frozen cdf differs");
            }
        } else if let Some(data) = { let _ = &nd_k_min; sorted_exact(nd).cloned() } {
            // ---- C15 accuracy against the exact empirical distribution
            let n = data.len() as f64;
            let k = nd_k_min;
            let z = (4.0 * (n / (2.0 * k as f64)).ln() + 24.0).max(1.0);
            let amax0 = data.iter().fold(0.0f64, |a, x| a.max(x.abs()));
            let amin0 = data.iter().filter(|x| **x != 0.0).fold(f64::INFINITY, |a, x| a.min(x.abs()));
            let extreme_span = amin0.is_finite() && amax0 / amin0 > 1e30;
            let mut probe_vals = grid.clone();
            probe_vals.push(data[data.len() / 2]);
            for &v in &probe_vals {
                let r = lib_call("rank", || nd.d.rank(v))?.unwrap_or(f64::NAN);
                st.lib_calls += 1;
                let lo = data.partition_point(|x| *x < v) as f64 / n;
                let hi = data.partition_point(|x| *x <= v) as f64 / n;
                let err = if r < lo { lo - r } else if r > hi { r - hi } else { 0.0 };
                let q = 0.5 * (lo + hi);
                let unit = q * (1.0 - q) * z / (2.0 * k as f64);
                let excess = err - 1.5 / n;
                if excess > 0.0 && unit > 0.0 {
                    st.maximum(if extreme_span { "c15_accuracy_ratio_extreme_span" } else { "c15_accuracy_ratio" }, excess / unit);
                }
                let extreme = v <= data[0] || v >= data[data.len() - 1];
                if extreme {
                    check!(err <= 1.5 / n + 1e-12, "C15.extreme_rank_error", "{name}: at the extreme v={v:e}: rank {r}, admissible true rank [{lo},{hi}], n={n} (must be exact to one sample)");
                } else if err > C15_ACCURACY_C * unit + 1.5 / n + 1e-12 {
                    // sub-class: data spanning more than 30 orders of magnitude, where centroid
                    // means (arithmetic averages) stop being representative of their members
                    let amax = data.iter().fold(0.0f64, |a, x| a.max(x.abs()));
                    let amin = data.iter().filter(|x| **x != 0.0).fold(f64::INFINITY, |a, x| a.min(x.abs()));
                    let sub = if amin.is_finite() && amax / amin > 1e30 { "|magnitude_span_gt_30_decades" } else { "" };
                    let viol = Violation::new(format!("C15.rank_error{sub}"), format!("{name}: rank({v:e}) = {r}, admissible true rank [{lo},{hi}], error {err} exceeds {C15_ACCURACY_C} * q(1-q)Z/2k = {} (+1.5/n), k={k}, n={n}, |x| from {amin:e} to {amax:e}", C15_ACCURACY_C * unit));
                    if sub.is_empty() {
                        return Err(viol);
                    }
                    st.record(viol);
                } else {
                    check!(err <= C15_ACCURACY_C * unit + 1.5 / n + 1e-12, "C15.rank_error", "{name}: rank({v:e}) = {r}, admissible true rank [{lo},{hi}], error {err} exceeds {C15_ACCURACY_C} * q(1-q)Z/2k = {} (+1.5/n), k={k}, n={n}", C15_ACCURACY_C * unit);
                }
            }
        }
        Ok(())
    }
}

impl Scenario for TdScen {
    type Cfg = Cfg;
    type Act = Act;
    fn name(&self) -> &'static str {
        if self.mode == 0 { "c10_tdigest" } else { "c15_tdigest" }
    }
    fn runs(&self, tier: Tier) -> u64 {
        match (self.mode, tier) {
            (0, Tier::Quick) => 20_000,
            (0, Tier::Thorough) => 600_000,
            (_, Tier::Quick) => 10_000,
            (_, Tier::Thorough) => 300_000,
        }
    }
    fn generate(&self, rng: &mut Rng, tier: Tier) -> (Cfg, Vec<Act>) {
        let nn = match rng.below(6) {
            0 => 1,
            1 => rng.range(9, 16),
            _ => rng.range(2, 8),
        } as usize;
        let ks: Vec<u16> = (0..nn)
            .map(|_| match rng.below(6) {
                0 => 10,
                // the upper half of the u16 range is documented as valid too (rare: such a digest is
                // exact for every stream the scenario can afford)
                1 if rng.chance(1, 12) => *rng.pick(&[32767u16, 32768, 50000, 65535]),
                1 => 500,
                2 => 200,
                _ => rng.range(10, 300) as u16,
            })
            .collect();
        let max_len = match (tier, self.mode) {
            (Tier::Quick, 0) => 3_000u64,
            (Tier::Quick, _) => 30_000,
            (Tier::Thorough, 0) => 20_000,
            (Tier::Thorough, _) => 300_000,
        };
        let mut acts = vec![];
        if self.mode == 1 && rng.chance(1, 120) {
            // spot run for the size bound: the smallest compressions with a very long stream
            // (the centroid count of a wrongly normalised scale function grows with ln n)
            let ks = vec![rng.range(10, 14) as u16];
            acts.push(Act::Stream { n: 0, shape: *rng.pick(&[0u8, 1, 2, 8]), len: rng.range(600_000, 1_000_000) as u32, seed: rng.next_u64(), scale_exp: 0 });
            acts.push(Act::Check { n: 0 });
            return (Cfg { ks }, acts);
        }
        let steps = 4 + rng.usize_below(24);
        let two = |rng: &mut Rng| {
            let a = rng.below(nn as u64) as u8;
            let mut b = rng.below(nn as u64) as u8;
            if a == b && nn > 1 {
                b = (b + 1) % nn as u8;
            }
            (a, b)
        };
        for _ in 0..steps {
            match rng.below(24) {
                0..=8 => {
                    let len = match rng.below(5) {
                        0 => rng.range(1, 8),
                        1 => rng.range(1, 300),
                        2 => rng.range(1, max_len),
                        _ => rng.range(1, max_len / 8 + 1),
                    } as u32;
                    let scale_exp = match rng.below(4) {
                        0 => 0,
                        1 => rng.range(0, 16) as i16 - 8,
                        _ => rng.range(0, 6) as i16,
                    };
                    acts.push(Act::Stream { n: rng.below(nn as u64) as u8, shape: rng.below(10) as u8, len, seed: rng.next_u64(), scale_exp });
                }
                9 => {
                    // single values incl. the ones that must be ignored
                    let bits = match rng.below(6) {
                        0 => f64::NAN.to_bits(),
                        1 => f64::INFINITY.to_bits(),
                        2 => f64::NEG_INFINITY.to_bits(),
                        3 => (-0.0f64).to_bits(),
                        _ => (rng.f64() * 100.0).to_bits(),
                    };
                    acts.push(Act::Update { n: rng.below(nn as u64) as u8, bits });
                }
                10..=14 => {
                    let (from, to) = two(rng);
                    acts.push(Act::Flush { from, to, form: rng.below(3) as u8 });
                }
                15..=16 => acts.push(Act::Deliver { pick: if rng.chance(1, 2) { 0 } else { rng.next_u32() } }),
                17 => acts.push(Act::Drop { pick: rng.next_u32() }),
                18 => acts.push(Act::Checkpoint { n: rng.below(nn as u64) as u8, sync: rng.chance(2, 3) }),
                19 => acts.push(Act::Crash { n: rng.below(nn as u64) as u8, torn: rng.chance(1, 2) }),
                20 | 21 => {
                    // foreign digest with shapes the in-process algorithm never produces
                    let k = *rng.pick(&[10u16, 50, 100, 200]);
                    let n = match rng.below(4) {
                        0 => 1,
                        1 => 2,
                        2 => 3,
                        _ => rng.range(2, (2 * k as u64).min(60)),
                    } as usize;
                    let base = (rng.f64() - 0.5) * 200.0;
                    // one image in six has means near the largest finite magnitudes, on both sides
                    // of zero (differences of two of them overflow)
                    let extreme = rng.chance(1, 6);
                    let mut cents: Vec<(u64, u64)> = vec![];
                    for i in 0..n {
                        let m = base + i as f64 * (0.5 + rng.f64()) + if rng.chance(1, 6) { 0.0 } else { rng.f64() * 0.1 };
                        let m = if extreme { m * 9e305 } else { m };
                        let w = match rng.below(4) {
                            0 => 1,
                            1 => rng.range(2, 10),
                            _ => rng.range(10, 5000),
                        };
                        cents.push((m.to_bits(), w));
                    }
                    match rng.below(4) {
                        0 => cents[0].1 = rng.range(50, 5000),         // heavy first centroid
                        1 => cents[n - 1].1 = rng.range(50, 5000),     // heavy last centroid
                        2 => { let i = rng.usize_below(n); for (j, c) in cents.iter_mut().enumerate() { c.1 = if j == i { 1000 } else { 1 }; } } // one heavy plus singletons
                        _ => {}
                    }
                    // (such means do not survive the f32 encodings)
                    let form = if extreme { 2 * rng.below(2) as u8 } else { rng.below(4) as u8 };
                    acts.push(Act::Foreign { to: rng.below(nn as u64) as u8, kk: k, cents, pad_min: rng.chance(2, 3), pad_max: rng.chance(2, 3), form });
                }
                _ => acts.push(Act::Check { n: rng.below(nn as u64) as u8 }),
            }
        }
        (Cfg { ks }, acts)
    }

    fn execute(&self, cfg: &Cfg, acts: &[Act], st: &mut RunStats) -> Result<(), Violation> {
        if cfg.ks.is_empty() {
            return Ok(());
        }
        let mut nodes: Vec<Node> = cfg.ks.iter().map(|&k| Node::new(k.clamp(10, 1000))).collect();
        let nn = nodes.len();
        let mut net: Vec<Msg> = vec![];
        st.shape_seq(nn as u64);
        let me = self;

        fn merge_bytes(nd: &mut Node, bytes: &[u8], is_f32: bool, st: &mut RunStats) -> Result<(), Violation> {
            let o = match lib_call("TDigestMut::deserialize", || TDigestMut::deserialize(bytes, is_f32))? {
                Ok(o) => o,
                Err(e) => return Err(Violation::new("C10.valid_image_rejected", format!("an intact image was rejected: {e} ({} bytes: {})", bytes.len(), crate::item::hex(&bytes[..bytes.len().min(48)])))),
            };
            lib_call("TDigestMut::merge", || nd.d.merge(&o))?;
            st.lib_calls += 2;
            Ok(())
        }

        for act in acts {
            st.ticks += 1;
            match act {
                Act::Update { n, bits } => {
                    let nd = &mut nodes[*n as usize % nn];
                    let v = f64::from_bits(*bits);
                    lib_call("TDigestMut::update", || nd.d.update(v))?;
                    st.lib_calls += 1;
                    if v.is_finite() {
                        if let Some(e) = &mut nd.exact {
                            e.push(v);
                            nd.sorted = false;
                        }
                        nd.count += 1;
                        nd.min = nd.min.min(v);
                        nd.max = nd.max.max(v);
                        nd.wal.push(Wal::Update(v));
                    } else {
                        st.fault("non_finite_value_offered");
                    }
                    let tw = nd.d.total_weight();
                    check!(tw == nd.count, if me.c10() { "C10.total_weight" } else { "C15.total_weight" }, "total_weight {tw} after offering {v}: {} finite values so far", nd.count);
                }
                Act::Stream { n, shape, len, seed, scale_exp } => {
                    let i_n = *n as usize % nn;
                    let mut r = Rng::new(*seed);
                    let scale = 10f64.powi((*scale_exp).clamp(-12, 12) as i32);
                    let len = (*len).min(1_000_000) as u64;
                    st.shape_seq(1000 + *shape as u64);
                    for i in 0..len {
                        let v = gen_value(&mut r, *shape, i, len, scale);
                        let nd = &mut nodes[i_n];
                        if !v.is_finite() {
                            continue;
                        }
                        lib_call("TDigestMut::update", || nd.d.update(v))?;
                        if let Some(e) = &mut nd.exact {
                            e.push(v);
                            nd.sorted = false;
                        }
                        nd.count += 1;
                        nd.min = nd.min.min(v);
                        nd.max = nd.max.max(v);
                        nd.wal.push(Wal::Update(v));
                        // C15: measured at every power-of-two prefix
                        if !me.c10() && nd.count == nd.next_pow2 {
                            nd.next_pow2 *= 2;
                            me.check_node("node(pow2 prefix)", nd, st)?;
                        }
                    }
                    st.lib_calls += len;
                }
                Act::Flush { from, to, form } => {
                    let (f, t) = (*from as usize % nn, *to as usize % nn);
                    if f == t {
                        continue;
                    }
                    st.shape_seq(2000 + *form as u64 % 3);
                    match form % 3 {
                        1 => {
                            let bytes = lib_call("TDigestMut::serialize", || nodes[f].d.serialize())?;
                            let s = &nodes[f];
                            net.push(Msg { to: t as u8, k_min: s.k_min, bytes, exact: s.exact.clone(), count: s.count, min: s.min, max: s.max });
                        }
                        fm => {
                            let (a, b) = if f < t {
                                let (x, y) = nodes.split_at_mut(t);
                                (&mut x[f], &mut y[0])
                            } else {
                                let (x, y) = nodes.split_at_mut(f);
                                (&mut y[0], &mut x[t])
                            };
                            if fm == 2 {
                                // freeze -> unfreeze round trip of the source, then merge
                                let tmp = lib_call("freeze/unfreeze", || a.d.clone().freeze().unfreeze())?;
                                lib_call("TDigestMut::merge", || b.d.merge(&tmp))?;
                                st.fault("freeze_unfreeze");
                            } else {
                                lib_call("TDigestMut::merge", || b.d.merge(&a.d))?;
                            }
                            st.lib_calls += 1;
                            let (e, c, mn, mx) = (a.exact.clone(), a.count, a.min, a.max);
                            b.absorb(&e, c, mn, mx);
                            b.k_min = b.k_min.min(a.k_min);
                            b.wal.push(Wal::Merge(a.d.serialize(), false));
                            me.check_node("node(after in-memory merge)", b, st)?;
                        }
                    }
                }
                Act::Deliver { pick } => {
                    if net.is_empty() {
                        continue;
                    }
                    let idx = *pick as usize % net.len();
                    if idx != 0 {
                        st.fault("reorder");
                    }
                    let m = net.remove(idx);
                    let nd = &mut nodes[m.to as usize];
                    merge_bytes(nd, &m.bytes, false, st)?;
                    nd.absorb(&m.exact, m.count, m.min, m.max);
                    nd.k_min = nd.k_min.min(m.k_min);
                    nd.wal.push(Wal::Merge(m.bytes.clone(), false));
                    st.nontrivial = true;
                    me.check_node("node(after wire merge)", nd, st)?;
                }
                Act::Drop { .. } => {
                    if !net.is_empty() {
                        st.fault("loss_then_retransmit");
                    }
                }
                Act::Checkpoint { n, sync } => {
                    let nd = &mut nodes[*n as usize % nn];
                    let img = lib_call("TDigestMut::serialize", || nd.d.serialize())?;
                    let w = nd.wal.len();
                    nd.gens.push((frame(&img), *sync, w));
                    if nd.gens.len() > 2 {
                        nd.gens.remove(0);
                    }
                    st.fault(if *sync { "checkpoint_synced" } else { "checkpoint_unsynced" });
                }
                Act::Crash { n, torn } => {
                    let nd = &mut nodes[*n as usize % nn];
                    st.fault("crash_restart");
                    if let Some(last) = nd.gens.last_mut() {
                        if !last.1 {
                            if *torn {
                                let l = last.0.len();
                                last.0.truncate(l / 2);
                                st.fault("torn_checkpoint");
                            } else {
                                last.1 = true;
                            }
                        }
                    }
                    let mut restored: Option<(TDigestMut, usize)> = None;
                    for (f, _, w) in nd.gens.iter().rev() {
                        if let Some(img) = unframe(f) {
                            match lib_call("TDigestMut::deserialize(restore)", || TDigestMut::deserialize(img, false))? {
                                Ok(d) => {
                                    restored = Some((d, *w));
                                    break;
                                }
                                Err(e) => return Err(Violation::new("C10.valid_image_rejected", format!("restore: intact checkpoint rejected: {e}"))),
                            }
                        } else {
                            st.fault("checkpoint_rejected_by_frame_crc");
                        }
                    }
                    let (d, from) = restored.unwrap_or_else(|| (TDigestMut::new(nd.k), 0));
                    nd.d = d;
                    let ops: Vec<Wal> = nd.wal[from..].to_vec();
                    for op in &ops {
                        match op {
                            Wal::Update(v) => {
                                lib_call("TDigestMut::update(wal)", || nd.d.update(*v))?;
                            }
                            Wal::Merge(b, f32) => merge_bytes(nd, b, *f32, st)?,
                        }
                    }
                    nd.gens.retain(|g| unframe(&g.0).is_some());
                    st.nontrivial = true;
                    me.check_node("node(after restart)", nd, st)?;
                }
                Act::Foreign { to, kk: k, cents, pad_min, pad_max, form } => {
                    let mut cs: Vec<(f64, u64)> = cents.iter().map(|(b, w)| (f64::from_bits(*b), (*w).clamp(1, 1 << 30))).filter(|c| c.0.is_finite()).collect();
                    if cs.is_empty() {
                        continue;
                    }
                    cs.sort_by(|a, b| a.0.partial_cmp(&b.0).unwrap());
                    let form = match form % 4 {
                        0 => codec::Form::NativeF64,
                        1 => codec::Form::NativeF32,
                        2 => codec::Form::CompatDouble,
                        _ => codec::Form::CompatFloat,
                    };
                    let f32ish = matches!(form, codec::Form::NativeF32 | codec::Form::CompatFloat);
                    if f32ish && cs.iter().any(|c| c.0.abs() > 1e38) {
                        continue; // not representable in the f32 encodings
                    }
                    if f32ish {
                        // values must survive the f32 encoding exactly; weights must fit the encoding
                        for c in cs.iter_mut() {
                            c.0 = c.0 as f32 as f64;
                            if form == codec::Form::CompatFloat {
                                c.1 = c.1.min(1 << 24);
                            }
                        }
                        cs.sort_by(|a, b| a.0.partial_cmp(&b.0).unwrap());
                    }
                    let total: u64 = cs.iter().map(|c| c.1).sum();
                    // min / max: beyond the extreme means when those centroids are heavy
                    let mut mn = cs[0].0;
                    let mut mx = cs[cs.len() - 1].0;
                    let huge = mn.abs().max(mx.abs()) > 1e300;
                    if *pad_min && cs[0].1 > 1 {
                        mn = if huge { -f64::MAX } else { mn - 1.5 };
                    }
                    if *pad_max && cs[cs.len() - 1].1 > 1 {
                        mx = if huge { f64::MAX } else { mx + 1.5 };
                    }
                    if f32ish {
                        mn = mn as f32 as f64;
                        mx = mx as f32 as f64;
                    }
                    let k = (*k).clamp(10, 1000);
                    if total == 1 && matches!(form, codec::Form::NativeF64 | codec::Form::NativeF32) {
                        mn = cs[0].0;
                        mx = cs[0].0;
                    }
                    let bytes = codec::encode(k, mn, mx, &cs, &[], false, form);
                    st.fault(match form {
                        codec::Form::NativeF64 => "foreign_native_f64",
                        codec::Form::NativeF32 => "foreign_native_f32",
                        codec::Form::CompatDouble => "foreign_reference_asBytes",
                        codec::Form::CompatFloat => "foreign_reference_asSmallBytes",
                    });
                    if cs[0].1 > 1 || cs[cs.len() - 1].1 > 1 {
                        st.probe("foreign_heavy_tail_centroid");
                    }
                    let nd = &mut nodes[*to as usize % nn];
                    merge_bytes(nd, &bytes, form == codec::Form::NativeF32, st)?;
                    nd.absorb(&None, total, mn, mx);
                    nd.wal.push(Wal::Merge(bytes, form == codec::Form::NativeF32));
                    st.nontrivial = true;
                    me.check_node("node(after foreign digest)", nd, st)?;
                }
                Act::Check { n } => {
                    let nd = &mut nodes[*n as usize % nn];
                    me.check_node("node", nd, st)?;
                }
            }
        }
        let pending = std::mem::take(&mut net);
        for m in pending {
            let nd = &mut nodes[m.to as usize];
            merge_bytes(nd, &m.bytes, false, st)?;
            nd.absorb(&m.exact, m.count, m.min, m.max);
            nd.k_min = nd.k_min.min(m.k_min);
        }
        for (i, nd) in nodes.iter_mut().enumerate() {
            me.check_node(&format!("node{i}(final)"), nd, st)?;
        }
        Ok(())
    }

    fn shrink_action(&self, a: &Act) -> Vec<Act> {
        match a {
            Act::Stream { n, shape, len, seed, scale_exp } if *len > 1 => vec![
                Act::Stream { n: *n, shape: *shape, len: len / 2, seed: *seed, scale_exp: *scale_exp },
                Act::Stream { n: *n, shape: *shape, len: len - 1, seed: *seed, scale_exp: *scale_exp },
            ],
            Act::Foreign { to, kk: k, cents, pad_min, pad_max, form } => {
                let mut out = vec![];
                if cents.len() > 1 {
                    for i in 0..cents.len().min(6) {
                        let mut c = cents.clone();
                        c.remove(i);
                        out.push(Act::Foreign { to: *to, kk: *k, cents: c, pad_min: *pad_min, pad_max: *pad_max, form: *form });
                    }
                }
                if *form != 0 {
                    out.push(Act::Foreign { to: *to, kk: *k, cents: cents.clone(), pad_min: *pad_min, pad_max: *pad_max, form: 0 });
                }
                out
            }
            Act::Flush { from, to, form } if *form != 0 => vec![Act::Flush { from: *from, to: *to, form: 0 }],
            _ => vec![],
        }
    }
}
