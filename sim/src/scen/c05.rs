//! C05 — a CPC sketch's state is exactly the set of distinct (row, column) coupons seen.
//!
//! System: one Source, replicas of one (lg_k, seed): group A = two replicas on one totally ordered
//! channel (identical sequence incl. duplicates => bit-identical HIP estimate), group B = three
//! replicas each on its own at-least-once channel (reorder, duplicate, loss/retransmit).

use crate::check;
use crate::core::{RunStats, Scenario, Tier, Violation, lib_call};
use crate::model::cpc::{CpcModel, Flavor, flavor, window_offset};
use crate::rng::Rng;
use datasketches::common::NumStdDev;
use datasketches::cpc::CpcSketch;
use serde::{Deserialize, Serialize};

pub struct C05;

#[derive(Clone, Serialize, Deserialize)]
pub struct Cfg {
    pub lg_k: u8,
}

#[derive(Clone, Serialize, Deserialize)]
#[serde(tag = "k")]
pub enum Act {
    Emit { rc: u32 },
    EmitItem { v: u64 },
    DupA { pick: u32 },
    DeliverB { r: u8, pick: u32, keep: bool },
    DropB { r: u8, pick: u32 },
    Check,
    /// `cols` full columns (a few holes) offered to every replica, rows in scattered
    /// order: the way to reach the windowed flavors at lg_k 19..21 without a million-action script
    Fill { cols: u8, seed: u64 },
}

pub fn item_row_col(v: u64, lg_k: u8, seed: u64) -> u32 {
    let (h1, h2) = crate::refhash::murmur3_x64_128(&v.to_le_bytes(), seed);
    let k = 1u64 << lg_k;
    let col = h2.leading_zeros().min(63);
    let row = (h1 & (k - 1)) as u32;
    let rc = (row << 6) | col;
    if rc == u32::MAX { rc ^ (1 << 6) } else { rc }
}

struct Replica {
    sk: CpcSketch,
    model: CpcModel,
    inflight: Vec<(u32, Option<u64>)>,
    last_flavor: Flavor,
    last_offset: u8,
}

pub fn deep_check_cpc(name: &str, sk: &CpcSketch, model: &CpcModel, st: &mut RunStats) -> Result<(), Violation> {
    let f = lib_call("CpcSketch::verif_fields", || sk.verif_fields())?;
    let m = lib_call("CpcSketch::verif_bit_matrix", || sk.verif_bit_matrix())?;
    st.lib_calls += 2;
    let lg_k = model.lg_k;
    check!(f.lg_k == lg_k, "C05.lg_k", "{name}: lg_k {} want {lg_k}", f.lg_k);
    check!(f.num_coupons as u64 == model.count, "C05.num_coupons", "{name}: num_coupons {} but {} distinct (row,col) pairs were offered", f.num_coupons, model.count);
    if m != model.m {
        let d = m.iter().zip(&model.m).position(|(a, b)| a != b);
        return Err(Violation::new("C05.bit_matrix", format!("{name}: reconstructed matrix differs from the model at row {d:?}: got {:#x?} want {:#x?} (C={}, offset {})", d.map(|i| m[i]), d.map(|i| model.m[i]), model.count, f.window_offset)));
    }
    let v = lib_call("CpcSketch::validate", || sk.validate())?;
    check!(v, "C05.validate", "{name}: validate() is false at C={}", model.count);
    let fl = flavor(lg_k, model.count);
    let off = window_offset(lg_k, model.count);
    check!(f.window_offset == off, "C05.window_offset", "{name}: window_offset {} but C={} K=2^{lg_k} implies {off}", f.window_offset, model.count);
    check!(f.has_window == (fl >= Flavor::Hybrid), "C05.flavor", "{name}: sliding window allocated = {} but flavor for C={} is {fl:?}", f.has_window, model.count);
    // first_interesting_column must be sound: every column below it is all ones in every row
    let fic = f.first_interesting_column;
    check!(fic <= 63, "C05.fic_range", "{name}: first_interesting_column {fic}");
    if fic > 0 {
        let mask = (1u64 << fic) - 1;
        let bad = model.m.iter().position(|w| w & mask != mask);
        check!(bad.is_none(), "C05.fic_unsound", "{name}: first_interesting_column {fic} but row {bad:?} still has a zero below it (later updates there would be ignored)");
    }
    if off >= 1 {
        st.probe("cpc_window_moved");
    }
    if off >= 8 {
        st.probe("cpc_window_offset_ge_8_kxp_refresh");
    }
    if off >= 40 {
        st.probe("cpc_window_offset_ge_40");
    }
    let e = sk.estimate();
    st.observe_f64(e);
    for s in [NumStdDev::One, NumStdDev::Two, NumStdDev::Three] {
        let (lb, ub) = (sk.lower_bound(s), sk.upper_bound(s));
        if !(lb <= e && e <= ub) {
            st.note(format!("C01 side probe (CPC): lb {lb} est {e} ub {ub} at {s:?}, lg_k {lg_k}, C {}", model.count));
        }
    }
    Ok(())
}

/// (row, col) stream generators.
///
/// Envelope (see DESIGN.md, C05): the sketch's surprising-value table can hold at most 24K
/// entries (3/4 of 2^(lg_k+5)), in Java/C++ as here. A stream that leaves more than that many
/// cells "surprising" (zeros left of the window, ones right of it) has probability < 2^-100 under
/// hashing and is outside what any CPC implementation represents. All generators therefore
/// produce left-packed matrices - hash-like draws, or column-major fills with a few holes (filled
/// later) and a thin fringe - for which the bound holds with a wide margin for every subset and
/// every row-folding of the streams of a run. (Two earlier generators that placed bits far to the
/// right of an empty matrix were withdrawn: the alarm they raised was the harness's, not the code's.)
pub fn gen_row_cols(rng: &mut Rng, lg_k: u8, max: usize, union_safe: bool) -> Vec<u32> {
    let k = 1u32 << lg_k;
    let rc = |row: u32, col: u32| -> u32 { ((row & (k - 1)) << 6) | (col & 63) };
    let mut out = vec![];
    let _ = union_safe;
    let mut g = rng.below(8);
    if g == 3 || g == 4 {
        g = 1 + rng.below(2);
    }
    match g {
        0 => {
            // what hashing would produce: uniform rows, geometric columns
            let n = 1 + rng.usize_below(max);
            for _ in 0..n {
                out.push(rc(rng.next_u32(), rng.geometric(63)));
            }
        }
        1 | 2 => {
            // column-major fill: walks Empty -> Sparse -> Hybrid -> Pinned -> Sliding and moves the window
            // at most 55 full columns: the window offset is defined up to 56, i.e. C < (27/8 + 56) K
            let cols = 1 + rng.below(if lg_k <= 6 { 55 } else { 12 }) as u32;
            let mut rows: Vec<u32> = (0..k).collect();
            // one fill in three first sets a band far to the right (a column, for a quarter, half or
            // all of the rows): a large table of surprising ones that a later window move absorbs
            // wholesale, leaving the table oversized for the few entries that remain
            if cols >= 3 && rng.chance(1, 3) {
                let cb = 8 + rng.below(cols as u64 - 1) as u32;
                let part = *rng.pick(&[4u32, 2, 1]);
                rng.shuffle(&mut rows);
                for &r in rows.iter().take((k / part).max(1) as usize) {
                    if out.len() >= max {
                        break;
                    }
                    out.push(rc(r, cb.min(63)));
                }
            }
            'o: for c in 0..cols {
                rng.shuffle(&mut rows);
                for &r in &rows {
                    if out.len() >= max {
                        break 'o;
                    }
                    // leave a few early-zone zeros behind to be set later ("surprising zeros")
                    if rng.chance(1, 40) {
                        continue;
                    }
                    out.push(rc(r, c));
                }
            }
            // now set some of the holes (maybe_delete path) and sprinkle late columns
            for _ in 0..rng.below(60) {
                out.push(rc(rng.next_u32(), rng.below(cols as u64) as u32));
            }
            for _ in 0..rng.below(20) {
                out.push(rc(rng.next_u32(), 57 + rng.below(7) as u32));
            }
        }
        3 => {
            // geometric columns shifted right: surprising ones far beyond the window
            let n = 1 + rng.usize_below(max.min(4 * k as usize));
            let shift = rng.below(50) as u32;
            for _ in 0..n {
                out.push(rc(rng.next_u32(), (rng.geometric(63) + shift).min(63)));
            }
        }
        4 => {
            // a few rows, all columns
            let rows: Vec<u32> = (0..1 + rng.below(4)).map(|_| rng.next_u32()).collect();
            for &r in &rows {
                for c in 0..64 {
                    out.push(rc(r, c));
                }
            }
        }
        7 => {
            // a dense band of neighbouring rows (low columns only) and a few pairs far away from it:
            // row gaps tens of times the mean gap, which the pair coder writes as long unary runs
            let w = rng.range(4, 32) as u32;
            let cols = rng.range(2, 7) as u32;
            let r0 = rng.next_u32();
            'b: for r in 0..w {
                for c in 0..cols {
                    if out.len() + 4 >= max {
                        break 'b;
                    }
                    out.push(rc(r0.wrapping_add(r), c));
                }
            }
            for _ in 0..1 + rng.below(3) {
                out.push(rc(r0.wrapping_add(k / 4 + rng.below((k / 2).max(1) as u64) as u32), rng.below(3) as u32));
            }
        }
        5 => {
            // bursts sitting on the flavor thresholds 3K/32, K/2, 27K/8
            let thr = [3 * k / 32, 3 * k / 32 + 1, k / 2, k / 2 + 1, 27 * k / 8, 27 * k / 8 + 1, 35 * k / 8, 43 * k / 8 + 1];
            let n = (*rng.pick(&thr) as usize).min(max).max(1);
            let mut i = 0u32;
            while out.len() < n {
                out.push(rc(i, i / k));
                i += 1;
            }
        }
        _ => {
            // exact repeats
            let n = 1 + rng.usize_below(max.min(300));
            for _ in 0..n {
                let x = rc(rng.next_u32(), rng.geometric(20));
                out.push(x);
                out.push(x);
            }
        }
    }
    out.truncate(max);
    out
}

impl Scenario for C05 {
    type Cfg = Cfg;
    type Act = Act;
    fn name(&self) -> &'static str {
        "c05_cpc_replicas"
    }
    fn runs(&self, tier: Tier) -> u64 {
        match tier {
            Tier::Quick => 6_000,
            Tier::Thorough => 60_000,
        }
    }
    fn generate(&self, rng: &mut Rng, tier: Tier) -> (Cfg, Vec<Act>) {
        let lg_k = match rng.below(10) {
            0 => 4,
            1 => 5,
            2 if tier == Tier::Thorough => rng.range(13, 16) as u8,
            _ => rng.range(4, 12) as u8,
        };
        if rng.chance(1, 200) {
            // spot run at a large lg_k (row indices beyond 2^16 / 2^20, k-scaled thresholds beyond 32 bits)
            let lg_k = *rng.pick(&[17u8, 19, 20, 21, 21]);
            return (Cfg { lg_k }, vec![Act::Fill { cols: rng.range(1, 5) as u8, seed: rng.next_u64() }, Act::Check]);
        }
        let k = 1usize << lg_k;
        let max = match rng.below(4) {
            0 => 60.min(64 * k),
            1 => 4 * k,
            _ => (64 * k).min(if tier == Tier::Quick { 8_000 } else { 80_000 }),
        };
        let mut rcs = vec![];
        for _ in 0..1 + rng.below(3) {
            let room = max.saturating_sub(rcs.len());
            if room == 0 {
                break;
            }
            rcs.extend(gen_row_cols(rng, lg_k, room, false));
        }
        let hashed = rng.chance(1, 6);
        let p_deliver = 1 + rng.below(5);
        let p_keep = rng.below(4);
        let p_drop = rng.below(3);
        let p_dup_a = rng.below(3);
        // a deep check costs O(k): keep its frequency in proportion
        let check_every = (*rng.pick(&[1usize, 8, 32, 128, 512])).max(k / 32);
        let mut acts = vec![];
        for (i, &rc) in rcs.iter().enumerate() {
            if hashed {
                acts.push(Act::EmitItem { v: rng.next_u64() });
            } else {
                acts.push(Act::Emit { rc });
            }
            if rng.below(16) < p_dup_a {
                acts.push(Act::DupA { pick: rng.next_u32() });
            }
            for _ in 0..rng.below(p_deliver + 1) {
                let r = rng.below(3) as u8;
                if rng.below(8) < p_drop {
                    acts.push(Act::DropB { r, pick: rng.next_u32() });
                } else {
                    acts.push(Act::DeliverB { r, pick: if rng.chance(1, 3) { 0 } else { rng.next_u32() }, keep: rng.below(8) < p_keep });
                }
            }
            if i % check_every == check_every - 1 {
                acts.push(Act::Check);
            }
        }
        (Cfg { lg_k }, acts)
    }

    fn execute(&self, cfg: &Cfg, acts: &[Act], st: &mut RunStats) -> Result<(), Violation> {
        let lg_k = cfg.lg_k.clamp(4, 21);
        let seed = 9001u64;
        let mk = || Replica { sk: CpcSketch::new(lg_k), model: CpcModel::new(lg_k), inflight: vec![], last_flavor: Flavor::Empty, last_offset: 0 };
        let mut a: Vec<Replica> = (0..2).map(|_| mk()).collect();
        let mut b: Vec<Replica> = (0..3).map(|_| mk()).collect();
        let mut log_a: Vec<(u32, Option<u64>)> = vec![];

        fn apply(rp: &mut Replica, rc: u32, item: Option<u64>, st: &mut RunStats) -> Result<(), Violation> {
            match item {
                Some(v) => lib_call("CpcSketch::update", || rp.sk.update(v))?,
                None => lib_call("CpcSketch::verif_row_col_update", || rp.sk.verif_row_col_update(rc))?,
            }
            st.lib_calls += 1;
            rp.model.offer(rc);
            // cheap invariant after every delivery
            let c = rp.sk.num_coupons() as u64;
            check!(c == rp.model.count, "C05.num_coupons", "num_coupons {c} but the model holds {} distinct pairs (after offering row {} col {})", rp.model.count, rc >> 6, rc & 63);
            Ok(())
        }

        for act in acts {
            st.ticks += 1;
            match act {
                Act::Emit { .. } | Act::EmitItem { .. } | Act::DupA { .. } => {
                    let (rc, item) = match act {
                        Act::Emit { rc } => (rc & (((1u32 << lg_k) - 1) << 6 | 63), None),
                        Act::EmitItem { v } => (item_row_col(*v, lg_k, seed), Some(*v)),
                        Act::DupA { pick } => {
                            if log_a.is_empty() {
                                continue;
                            }
                            st.fault("dup_ordered_channel");
                            log_a[*pick as usize % log_a.len()]
                        }
                        _ => unreachable!(),
                    };
                    if rc == u32::MAX {
                        continue;
                    }
                    if !matches!(act, Act::DupA { .. }) {
                        log_a.push((rc, item));
                        for rp in b.iter_mut() {
                            rp.inflight.push((rc, item));
                        }
                    }
                    for rp in a.iter_mut() {
                        apply(rp, rc, item, st)?;
                    }
                    let e0 = a[0].sk.estimate();
                    let e1 = a[1].sk.estimate();
                    st.observe_f64(e0);
                    check!(e0.to_bits() == e1.to_bits(), "C05.same_sequence_different_estimate", "two replicas fed the identical sequence report {e0} vs {e1}");
                    let (fl, off) = (flavor(lg_k, a[0].model.count), window_offset(lg_k, a[0].model.count));
                    if fl != a[0].last_flavor || off != a[0].last_offset {
                        a[0].last_flavor = fl;
                        a[0].last_offset = off;
                        st.shape_seq(200 + fl as u64 * 64 + off as u64);
                        deep_check_cpc("A0", &a[0].sk, &a[0].model, st)?;
                    }
                }
                Act::DeliverB { r, pick, keep } => {
                    let i = *r as usize % 3;
                    if b[i].inflight.is_empty() {
                        continue;
                    }
                    let idx = *pick as usize % b[i].inflight.len();
                    if idx != 0 {
                        st.fault("reorder");
                    }
                    let (rc, item) = b[i].inflight[idx];
                    if *keep {
                        st.fault("duplicate_delivery");
                    } else {
                        b[i].inflight.remove(idx);
                    }
                    apply(&mut b[i], rc, item, st)?;
                    st.nontrivial = true;
                    let (fl, off) = (flavor(lg_k, b[i].model.count), window_offset(lg_k, b[i].model.count));
                    if fl != b[i].last_flavor || off != b[i].last_offset {
                        b[i].last_flavor = fl;
                        b[i].last_offset = off;
                        deep_check_cpc("B", &b[i].sk, &b[i].model, st)?;
                    }
                }
                Act::DropB { r, .. } => {
                    if !b[*r as usize % 3].inflight.is_empty() {
                        st.fault("loss_then_retransmit");
                    }
                }
                Act::Check => {
                    for rp in a.iter().chain(b.iter()) {
                        deep_check_cpc("replica", &rp.sk, &rp.model, st)?;
                    }
                }
                Act::Fill { cols, seed } => {
                    let k = 1u32 << lg_k;
                    let (cols, seed) = ((*cols as u32).clamp(1, 6), *seed as u32);
                    for rp in a.iter_mut().chain(b.iter_mut()) {
                    lib_call("CpcSketch::verif_row_col_update x (cols * k)", || {
                        for c in 0..cols {
                            for i in 0..k {
                                let row = i.wrapping_mul(0x9E37_79B1) & (k - 1);
                                if (row.wrapping_mul(2654435761) ^ c.wrapping_mul(40503) ^ seed) % 97 == 0 {
                                    continue; // a hole: an early-zone zero once the window has moved on
                                }
                                let rc = (row << 6) | c;
                                rp.sk.verif_row_col_update(rc);
                                rp.model.offer(rc);
                            }
                        }
                    })?;
                    let c = rp.sk.num_coupons() as u64;
                    check!(c == rp.model.count, "C05.num_coupons", "after a fill of {cols} columns at lg_k {lg_k}: num_coupons {c}, model {}", rp.model.count);
                    }
                    st.probe("large_lg_k_fill");
                }
            }
        }
        for rp in b.iter_mut() {
            let pending = std::mem::take(&mut rp.inflight);
            for (rc, item) in pending {
                apply(rp, rc, item, st)?;
            }
        }
        for rp in a.iter().chain(b.iter()) {
            deep_check_cpc("replica(final)", &rp.sk, &rp.model, st)?;
        }
        let ma = a[0].sk.verif_bit_matrix();
        for rp in &b {
            check!(rp.sk.verif_bit_matrix() == ma, "C05.replicas_diverge", "replicas delivered the same set of pairs in different order / multiplicity hold different matrices");
        }
        st.shape_seq(lg_k as u64);
        Ok(())
    }

    fn shrink_cfg(&self, c: &Cfg) -> Vec<Cfg> {
        if c.lg_k > 4 { vec![Cfg { lg_k: 4 }, Cfg { lg_k: c.lg_k - 1 }] } else { vec![] }
    }
}
