//! C14 — malformed bytes yield an error, never a panic, abort or runaway allocation.
//!
//! System: a Writer node (real library) stores / sends a valid image on the *raw* disk and wire
//! (no framing, no checksum); the fault injector damages it (torn/short writes = truncation,
//! bit/byte flips, boundary values in header fields, zeroed / stale / duplicated / swapped
//! sectors, extension, splice of two images, misrouting to another family's reader); a Reader
//! node calls every deserialize entry point on what arrives and, when it gets `Ok`, keeps
//! operating on the value (queries, updates, merges both ways, re-serialization).
//!
//! Oracle (relaxed, and only here): each call ends as Ok or Err — no panic, abort, hang; memory
//! requested stays in proportion to the input length. Values are never compared.

use crate::alloc;
use crate::core::{RunStats, Scenario, Tier, Violation, lib_call};
use crate::corpus::{self, Spec};
use crate::item::hex;
use crate::rng::Rng;
use datasketches::bloom::{BloomFilter, BloomFilterBuilder};
use datasketches::common::NumStdDev;
use datasketches::countmin::{CountMinSketch, CountMinValue};
use datasketches::cpc::{CpcSketch, CpcUnion, CpcWrapper};
use datasketches::frequencies::{ErrorType, FrequentItemsSketch};
use datasketches::hll::{HllSketch, HllType, HllUnion};
use datasketches::tdigest::TDigestMut;
use datasketches::theta::CompactThetaSketch;
use serde::{Deserialize, Serialize};

pub struct C14;

#[derive(Clone, Debug, Serialize, Deserialize)]
#[serde(tag = "f")]
pub enum Fault {
    /// short / torn write, EOF: keep the first `at` bytes
    Trunc { at: u32 },
    BitFlip { bit: u32 },
    ByteSet { pos: u32, val: u8 },
    /// little-endian field of `width` bytes at `pos` set to `val`
    FieldSet { pos: u32, width: u8, val: u64 },
    ZeroSector { sector: u32, size: u32 },
    /// sector content from the previous generation of the same file
    StaleSector { sector: u32, size: u32 },
    DupSector { from: u32, to: u32, size: u32 },
    SwapSector { a: u32, b: u32, size: u32 },
    /// kind 0 = zeros, 1 = 0xff, 2 = a second copy of the image
    Extend { kind: u8, len: u32 },
}

#[derive(Clone, Debug, Serialize, Deserialize)]
#[serde(tag = "k")]
pub enum Act {
    /// deliver the image damaged by `faults` (in order) to its own family's readers
    Deliver { faults: Vec<Fault> },
    /// deliver the (possibly damaged) image to another family's reader
    Misroute { faults: Vec<Fault>, to: String },
    /// truncation at every offset in [from, to)
    TruncRange { from: u32, to: u32 },
    /// every single-bit flip for bits in [from, to)
    BitFlipRange { from: u32, to: u32 },
    /// every byte in [from, to) set to each boundary value
    ByteSetRange { from: u32, to: u32 },
    /// every aligned field of `width` bytes starting in [from, to) set to each boundary value
    FieldSetRange { from: u32, to: u32, width: u8 },
    /// every header byte in [0, 8) at its boundary values combined with every aligned 32-bit field
    /// in [4, 24) at count-like values: sizes that are only dangerous when two fields agree
    HeaderPairs,
    /// CPC only: the surprising-value table re-encoded (valid entropy coding) around pair lists a
    /// writer never produces - columns 56..63, rows at and beyond k, duplicates, extra entries
    CpcPairs,
    /// head of this image + tail of another image of the same family (different mode)
    Splice { other: Spec, cut: u32 },
    /// purely random buffer
    RandomBuf { len: u32, seed: u64, to: String },
}

const BYTE_VALUES: [u8; 17] = [0, 1, 2, 3, 4, 7, 8, 0x0f, 0x10, 0x1f, 0x20, 0x3f, 0x40, 0x7f, 0x80, 0xfe, 0xff];

fn field_values(width: u8, len: usize) -> Vec<u64> {
    let max = if width >= 8 { u64::MAX } else { (1u64 << (8 * width)) - 1 };
    let mut v = vec![0, 1, max - 1, max, max / 2, max / 2 + 1, len as u64, len as u64 + 1, (len as u64).saturating_sub(1)];
    let bits = 8 * width as u32;
    for k in [7u32, 8, 15, 16, 20, 24, 26, 28, 30, 31, 32, 33, 40, 48, 62, 63] {
        if k < bits {
            v.push(1u64 << k);
            v.push((1u64 << k) - 1);
            v.push((1u64 << k) + 1);
        }
    }
    v.sort_unstable();
    v.dedup();
    v.into_iter().filter(|&x| x <= max).collect()
}

pub fn apply_fault(buf: &mut Vec<u8>, old: &[u8], f: &Fault, st: &mut RunStats) {
    let len = buf.len();
    match f {
        Fault::Trunc { at } => {
            let at = if len == 0 { 0 } else { *at as usize % (len + 1) };
            buf.truncate(at);
            st.fault("truncate");
        }
        Fault::BitFlip { bit } => {
            if len > 0 {
                let b = *bit as usize % (len * 8);
                buf[b / 8] ^= 1 << (b % 8);
                st.fault("bit_flip");
            }
        }
        Fault::ByteSet { pos, val } => {
            if len > 0 {
                buf[*pos as usize % len] = *val;
                st.fault("byte_set");
            }
        }
        Fault::FieldSet { pos, width, val } => {
            let w = *width as usize;
            if len >= w && w > 0 {
                let p = *pos as usize % (len - w + 1);
                buf[p..p + w].copy_from_slice(&val.to_le_bytes()[..w]);
                st.fault("field_set");
            }
        }
        Fault::ZeroSector { sector, size } => {
            let sz = (*size as usize).max(1);
            let ns = len.div_ceil(sz);
            if ns > 0 {
                let s = *sector as usize % ns;
                for b in buf[s * sz..((s + 1) * sz).min(len)].iter_mut() {
                    *b = 0;
                }
                st.fault("zero_sector");
            }
        }
        Fault::StaleSector { sector, size } => {
            let sz = (*size as usize).max(1);
            let ns = len.div_ceil(sz);
            if ns > 0 {
                let s = *sector as usize % ns;
                for i in s * sz..((s + 1) * sz).min(len) {
                    buf[i] = old.get(i).copied().unwrap_or(0);
                }
                st.fault("stale_sector");
            }
        }
        Fault::DupSector { from, to, size } => {
            let sz = (*size as usize).max(1);
            let ns = len / sz;
            if ns > 1 {
                let a = *from as usize % ns;
                let b = *to as usize % ns;
                let src: Vec<u8> = buf[a * sz..(a + 1) * sz].to_vec();
                buf[b * sz..(b + 1) * sz].copy_from_slice(&src);
                st.fault("dup_sector");
            }
        }
        Fault::SwapSector { a, b, size } => {
            let sz = (*size as usize).max(1);
            let ns = len / sz;
            if ns > 1 {
                let x = *a as usize % ns;
                let y = *b as usize % ns;
                for i in 0..sz {
                    buf.swap(x * sz + i, y * sz + i);
                }
                st.fault("swap_sector");
            }
        }
        Fault::Extend { kind, len: l } => {
            let l = (*l as usize).min(4096);
            match kind {
                0 => buf.extend(std::iter::repeat_n(0u8, l)),
                1 => buf.extend(std::iter::repeat_n(0xffu8, l)),
                _ => {
                    let c = buf.clone();
                    buf.extend_from_slice(&c);
                }
            }
            st.fault("extend");
        }
    }
}

fn describe(buf: &[u8]) -> String {
    if buf.len() <= 96 { hex(buf) } else { format!("{}..(+{} bytes)", hex(&buf[..96]), buf.len() - 96) }
}

fn budget(len: usize) -> usize {
    64 * len + (64 << 10)
}

struct Ctx<'a> {
    what: &'a str,
    buf: &'a [u8],
}

fn viol(ctx: &Ctx, mut v: Violation) -> Violation {
    v.detail = format!("{} | fault: {} | buffer[{}]: {}", v.detail, ctx.what, ctx.buf.len(), describe(ctx.buf));
    v
}

/// Run one deserialize entry point under the allocation scope and the panic guard.
fn read<T, E>(
    label: &'static str,
    sub: &str,
    ctx: &Ctx,
    st: &mut RunStats,
    implied: impl Fn(&T) -> usize,
    f: impl FnOnce() -> Result<T, E>,
) -> Result<Option<T>, Violation> {
    st.lib_calls += 1;
    // the abort side channel also says whether the image is in the empty form (whose size is
    // implied by its configuration alone)
    alloc::set_label(match (label, sub) {
        ("BloomFilter::deserialize", "empty-form") => "BloomFilter::deserialize[empty-form]",
        ("BloomFilter::deserialize", _) => "BloomFilter::deserialize[with-data]",
        (l, "empty-form") if l.starts_with("CountMinSketch<") => cm_label(l, true),
        (l, "with-data") if l.starts_with("CountMinSketch<") => cm_label(l, false),
        // Frequent Items: the image's own lg_cur_map_size byte asks for a map beyond the input's budget
        (l, _) if l.starts_with("FrequentItemsSketch<") && ctx.buf.len() > 4 && ctx.buf[4] < 64 && (1u128 << ctx.buf[4]) * 18 > budget(ctx.buf.len()) as u128 => match l {
            "FrequentItemsSketch<i64>::deserialize" => "FrequentItemsSketch<i64>::deserialize[lg_cur-sized]",
            "FrequentItemsSketch<u64>::deserialize" => "FrequentItemsSketch<u64>::deserialize[lg_cur-sized]",
            _ => "FrequentItemsSketch<String>::deserialize[lg_cur-sized]",
        },
        (l, _) => l,
    });
    let (r, rep) = alloc::scoped(|| lib_call(label, f));
    let r = r.map_err(|v| viol(ctx, v))?;
    let b = budget(ctx.buf.len());
    match r {
        Err(_) => {
            st.probe("reader_err");
            if rep.peak_net > b {
                return Err(viol(
                    ctx,
                    Violation::new(
                        format!("C14.alloc_on_err|{label}|{sub}"),
                        format!("{label} returned Err after requesting a peak of {} live bytes (largest single request {}) for a {}-byte input (budget {})", rep.peak_net, rep.max_request, ctx.buf.len(), b),
                    ),
                ));
            }
            Ok(None)
        }
        Ok(v) => {
            st.probe("reader_ok");
            let imp = implied(&v);
            let allowed = b.max(imp + imp / 2 + (64 << 10));
            if rep.retained > allowed || rep.peak_net > allowed.saturating_mul(3) {
                return Err(viol(
                    ctx,
                    Violation::new(
                        format!("C14.alloc_on_ok|{label}|{sub}"),
                        format!("{label} returned Ok retaining {} bytes (peak {}, largest request {}) for a {}-byte input; budget {}, size implied by the value's own configuration {}", rep.retained, rep.peak_net, rep.max_request, ctx.buf.len(), b, imp),
                    ),
                ));
            }
            if imp > b {
                st.probe("ok_exempt_config_sized");
            }
            Ok(Some(v))
        }
    }
}

const STDS: [NumStdDev; 3] = [NumStdDev::One, NumStdDev::Two, NumStdDev::Three];

fn recover_hll(mut v: HllSketch, ctx: &Ctx, st: &mut RunStats) -> Result<(), Violation> {
    alloc::set_label("hll.recovery");
    lib_call("HllSketch recovery workload", || {
        let _ = (v.estimate(), v.is_empty(), v.lg_config_k(), v.target_type());
        for s in STDS {
            let _ = (v.lower_bound(s), v.upper_bound(s));
        }
        let img = v.serialize();
        let _ = HllSketch::deserialize(&img);
        let mut healthy = HllSketch::new(10, HllType::Hll8);
        for i in 0..300u64 {
            healthy.update(i);
        }
        for lg in [v.lg_config_k().clamp(4, 21), 12, 4] {
            let mut u = HllUnion::new(lg);
            u.update(&v);
            u.update(&healthy);
            let _ = u.estimate();
            for t in [HllType::Hll4, HllType::Hll6, HllType::Hll8] {
                let r = u.to_sketch(t);
                let _ = (r.estimate(), r.serialize());
            }
            let mut u2 = HllUnion::new(lg);
            u2.update(&healthy);
            u2.update(&v);
            let _ = (u2.estimate(), u2.lower_bound(NumStdDev::Two), u2.to_sketch(HllType::Hll4).serialize());
        }
        for i in 0..64u64 {
            v.update(i.wrapping_mul(0x9E37_79B9_7F4A_7C15));
        }
        for i in 0..64u32 {
            v.verif_update_with_coupon(((1 + (i % 50)) << 26) | (i.wrapping_mul(2654435761) & 0x3ff_ffff));
        }
        let _ = (v.estimate(), v.upper_bound(NumStdDev::Three), v.serialize());
        // every register raised past any exception threshold, then to the maximum (small lg_k only)
        if v.lg_config_k() <= 10 {
            let k = 1u32 << v.lg_config_k();
            for val in [40u32, 63] {
                for slot in 0..k {
                    v.verif_update_with_coupon((val << 26) | slot);
                }
                let _ = (v.estimate(), v.serialize());
            }
        }
    })
    .map_err(|e| viol(ctx, e))?;
    st.lib_calls += 1;
    Ok(())
}

fn recover_theta(v: CompactThetaSketch, ctx: &Ctx, st: &mut RunStats) -> Result<(), Violation> {
    alloc::set_label("theta.recovery");
    lib_call("CompactThetaSketch recovery workload", || {
        let _ = (v.estimate(), v.theta(), v.theta64(), v.is_empty(), v.is_estimation_mode(), v.num_retained(), v.is_ordered(), v.seed_hash());
        for s in STDS {
            let _ = (v.lower_bound(s), v.upper_bound(s));
        }
        let _ = v.iter().count();
        let a = v.serialize();
        let b = v.serialize_compressed();
        let _ = CompactThetaSketch::deserialize(&a);
        let _ = CompactThetaSketch::deserialize(&b);
    })
    .map_err(|e| viol(ctx, e))?;
    st.lib_calls += 1;
    Ok(())
}

fn recover_cpc(mut v: CpcSketch, ctx: &Ctx, st: &mut RunStats) -> Result<(), Violation> {
    alloc::set_label("cpc.recovery");
    lib_call("CpcSketch recovery workload", || {
        let _ = (v.estimate(), v.is_empty(), v.lg_k(), v.num_coupons(), v.validate());
        for s in STDS {
            let _ = (v.lower_bound(s), v.upper_bound(s));
        }
        let img = v.serialize();
        let _ = CpcSketch::deserialize(&img);
        let _ = CpcWrapper::new(&img);
        let mut healthy = CpcSketch::new(10);
        for i in 0..2000u64 {
            healthy.update(i);
        }
        if v.lg_k() <= 20 {
            let mut u = CpcUnion::new(v.lg_k());
            u.update(&v);
            u.update(&healthy);
            let r = u.to_sketch();
            let _ = (r.estimate(), r.validate(), r.serialize());
            let mut u2 = CpcUnion::new(11);
            u2.update(&healthy);
            u2.update(&v);
            let r = u2.to_sketch();
            let _ = (r.estimate(), r.serialize());
        }
        for i in 0..64u64 {
            v.update(i.wrapping_mul(0x9E37_79B9_7F4A_7C15));
        }
        let _ = (v.estimate(), v.validate(), v.serialize());
    })
    .map_err(|e| viol(ctx, e))?;
    st.lib_calls += 1;
    Ok(())
}

fn recover_bloom(mut v: BloomFilter, ctx: &Ctx, st: &mut RunStats) -> Result<(), Violation> {
    alloc::set_label("bloom.recovery");
    lib_call("BloomFilter recovery workload", || {
        let _ = (v.is_empty(), v.bits_used(), v.capacity(), v.num_hashes(), v.seed(), v.load_factor(), v.estimated_fpp());
        let _ = v.contains(&1u64);
        let img = v.serialize();
        let _ = BloomFilter::deserialize(&img);
        if v.capacity() <= (1 << 26) {
            let mut healthy = BloomFilterBuilder::with_size(v.capacity() as u64, v.num_hashes()).seed(v.seed()).build();
            for i in 0..50u64 {
                healthy.insert(i);
            }
            if v.is_compatible(&healthy) {
                let mut a = v.clone();
                a.union(&healthy);
                let _ = a.bits_used();
                let mut b = healthy.clone();
                b.union(&v);
                let mut c = healthy.clone();
                c.intersect(&v);
                let mut d = v.clone();
                d.intersect(&healthy);
                let _ = (b.serialize(), c.bits_used(), d.serialize());
            }
            for i in 0..64u64 {
                v.insert(i);
                let _ = v.contains_and_insert(&(i + 1000));
            }
            v.invert();
            let _ = (v.bits_used(), v.serialize());
            v.reset();
        }
    })
    .map_err(|e| viol(ctx, e))?;
    st.lib_calls += 1;
    Ok(())
}

fn recover_cm<T: CountMinValue + std::fmt::Debug>(mut v: CountMinSketch<T>, ctx: &Ctx, st: &mut RunStats) -> Result<(), Violation> {
    alloc::set_label("cm.recovery");
    lib_call("CountMinSketch recovery workload", || {
        let _ = (v.is_empty(), v.total_weight(), v.num_hashes(), v.num_buckets(), v.seed(), v.relative_error());
        let _ = (v.estimate(1u64), v.lower_bound(1u64));
        if v.num_hashes() as usize * v.num_buckets() as usize > (1 << 22) {
            // a (legitimately) huge configured table: the remaining operations are O(table) and
            // would only measure time, not behaviour
            return;
        }
        let img = v.serialize();
        let _ = CountMinSketch::<T>::deserialize(&img);
        // merging / updating can legitimately overflow a counter type once the image's counters
        // are arbitrary; the documented precondition (totals fit the type) is the caller's, so
        // only zero-weight-safe operations are exercised on a damaged-but-Ok value.
        let healthy = CountMinSketch::<T>::with_seed(v.num_hashes(), v.num_buckets(), v.seed());
        v.merge(&healthy);
        let mut h2 = CountMinSketch::<T>::with_seed(v.num_hashes(), v.num_buckets(), v.seed());
        if v.total_weight() == T::ZERO {
            h2.merge(&v);
            for i in 0..20u64 {
                v.update(i);
            }
            let _ = v.upper_bound(3u64);
        }
        let _ = (v.estimate(7u64), v.serialize());
    })
    .map_err(|e| viol(ctx, e))?;
    st.lib_calls += 1;
    Ok(())
}

fn recover_fi<T>(mut v: FrequentItemsSketch<T>, mk: impl Fn(u64) -> T, ctx: &Ctx, st: &mut RunStats) -> Result<(), Violation>
where
    T: datasketches::frequencies::FrequentItemValue,
{
    alloc::set_label("fi.recovery");
    lib_call("FrequentItemsSketch recovery workload", || {
        let _ = (v.is_empty(), v.num_active_items(), v.total_weight(), v.maximum_error(), v.epsilon(), v.maximum_map_capacity(), v.current_map_capacity(), v.lg_max_map_size(), v.lg_cur_map_size());
        let x = mk(1);
        let _ = (v.estimate(&x), v.lower_bound(&x), v.upper_bound(&x));
        if v.lg_cur_map_size() > 20 {
            return;
        }
        let _ = v.frequent_items(ErrorType::NoFalsePositives);
        let _ = v.frequent_items(ErrorType::NoFalseNegatives);
        let img = v.serialize();
        let _ = FrequentItemsSketch::<T>::deserialize(&img);
        // weights read from a damaged image are arbitrary u64; total weight < 2^64 is the
        // caller's documented precondition, so further additions are only made when there is room
        if v.total_weight() < (1 << 62) && v.maximum_error() < (1 << 62) {
            let mut healthy = FrequentItemsSketch::<T>::new(16);
            for i in 0..100u64 {
                healthy.update_with_count(mk(i % 23), 1 + i % 3);
            }
            let mut a = healthy.clone();
            a.merge(&v);
            let _ = (a.total_weight(), a.serialize());
            v.merge(&healthy);
            for i in 0..64u64 {
                v.update(mk(i));
            }
            let _ = (v.frequent_items(ErrorType::NoFalseNegatives).len(), v.serialize());
        }
        v.reset();
    })
    .map_err(|e| viol(ctx, e))?;
    st.lib_calls += 1;
    Ok(())
}

fn recover_td(mut v: TDigestMut, ctx: &Ctx, st: &mut RunStats) -> Result<(), Violation> {
    alloc::set_label("td.recovery");
    lib_call("TDigestMut recovery workload", || {
        let _ = (v.is_empty(), v.k(), v.total_weight(), v.min_value(), v.max_value());
        // centroid weights from a damaged image are arbitrary; sums of them are the caller's
        // precondition (total weight < 2^64), so only modest totals are operated on further
        if v.total_weight() < (1 << 60) {
            let _ = (v.rank(0.5), v.quantile(0.5), v.quantile(0.0), v.quantile(1.0), v.rank(-1e300), v.rank(1e300));
            let _ = v.cdf(&[0.0, 1.0]);
            let _ = v.pmf(&[0.5]);
            let img = v.serialize();
            let _ = TDigestMut::deserialize(&img, false);
            let mut healthy = TDigestMut::new(50);
            for i in 0..500 {
                healthy.update(i as f64);
            }
            let mut a = healthy.clone();
            a.merge(&v);
            let _ = (a.quantile(0.3), a.serialize());
            v.merge(&healthy);
            for i in 0..64 {
                v.update(i as f64 * 0.37);
            }
            let _ = (v.rank(3.0), v.quantile(0.9), v.serialize());
            let f = v.freeze();
            let _ = (f.rank(1.0), f.quantile(0.1), f.total_weight());
            let _ = f.unfreeze().serialize();
        }
    })
    .map_err(|e| viol(ctx, e))?;
    st.lib_calls += 1;
    Ok(())
}

fn cm_label(l: &'static str, empty: bool) -> &'static str {
    const T: [&str; 8] = ["u8", "u16", "u32", "u64", "i8", "i16", "i32", "i64"];
    const E: [&str; 8] = [
        "CountMinSketch<u8>::deserialize[empty-form]", "CountMinSketch<u16>::deserialize[empty-form]", "CountMinSketch<u32>::deserialize[empty-form]", "CountMinSketch<u64>::deserialize[empty-form]",
        "CountMinSketch<i8>::deserialize[empty-form]", "CountMinSketch<i16>::deserialize[empty-form]", "CountMinSketch<i32>::deserialize[empty-form]", "CountMinSketch<i64>::deserialize[empty-form]",
    ];
    const D: [&str; 8] = [
        "CountMinSketch<u8>::deserialize[with-data]", "CountMinSketch<u16>::deserialize[with-data]", "CountMinSketch<u32>::deserialize[with-data]", "CountMinSketch<u64>::deserialize[with-data]",
        "CountMinSketch<i8>::deserialize[with-data]", "CountMinSketch<i16>::deserialize[with-data]", "CountMinSketch<i32>::deserialize[with-data]", "CountMinSketch<i64>::deserialize[with-data]",
    ];
    for i in 0..8 {
        if l == format!("CountMinSketch<{}>::deserialize", T[i]) {
            return if empty { E[i] } else { D[i] };
        }
    }
    l
}

fn flag_sub(buf: &[u8], mask: u8) -> &'static str {
    match buf.get(3) {
        Some(f) if f & mask != 0 => "empty-form",
        _ => "with-data",
    }
}

fn hll_sub(buf: &[u8]) -> &'static str {
    match buf.get(7).map(|b| b & 3) {
        Some(0) => "list",
        Some(1) => "set",
        Some(2) => "hll",
        _ => "?",
    }
}

fn theta_sub(buf: &[u8]) -> &'static str {
    match buf.get(1) {
        Some(1) => "v1",
        Some(2) => "v2",
        Some(3) => "v3",
        Some(4) => "v4",
        _ => "?",
    }
}

/// Deliver `buf` to the reader(s) of `fam`.
pub fn deliver(fam: &str, buf: &[u8], what: &str, st: &mut RunStats) -> Result<(), Violation> {
    let ctx = Ctx { what, buf };
    match fam {
        "hll" | "hll_union" => {
            if let Some(v) = read("HllSketch::deserialize", hll_sub(buf), &ctx, st, |_| 0, || HllSketch::deserialize(buf))? {
                recover_hll(v, &ctx, st)?;
            }
        }
        "theta" | "theta_v4" => {
            if let Some(v) = read("CompactThetaSketch::deserialize", theta_sub(buf), &ctx, st, |_| 0, || CompactThetaSketch::deserialize(buf))? {
                recover_theta(v, &ctx, st)?;
            }
            if let Some(v) = read("CompactThetaSketch::deserialize_with_seed", theta_sub(buf), &ctx, st, |_| 0, || CompactThetaSketch::deserialize_with_seed(buf, 12345))? {
                recover_theta(v, &ctx, st)?;
            }
        }
        "cpc" | "cpc_union" => {
            if let Some(v) = read("CpcSketch::deserialize", "", &ctx, st, |_| 0, || CpcSketch::deserialize(buf))? {
                recover_cpc(v, &ctx, st)?;
            }
            if let Some(v) = read("CpcSketch::deserialize_with_seed", "", &ctx, st, |_| 0, || CpcSketch::deserialize_with_seed(buf, 12345))? {
                recover_cpc(v, &ctx, st)?;
            }
            if let Some(w) = read("CpcWrapper::new", "", &ctx, st, |_| 0, || CpcWrapper::new(buf))? {
                alloc::set_label("cpcwrapper.recovery");
                lib_call("CpcWrapper accessors", || {
                    let _ = (w.estimate(), w.is_empty(), w.lg_k());
                    for s in STDS {
                        let _ = (w.lower_bound(s), w.upper_bound(s));
                    }
                })
                .map_err(|e| viol(&ctx, e))?;
            }
        }
        "bloom" => {
            if let Some(v) = read("BloomFilter::deserialize", flag_sub(buf, 4), &ctx, st, |v: &BloomFilter| v.capacity() / 8, || BloomFilter::deserialize(buf))? {
                recover_bloom(v, &ctx, st)?;
            }
        }
        "cm_u8" => cm_deliver::<u8>("CountMinSketch<u8>::deserialize", &ctx, st)?,
        "cm_u16" => cm_deliver::<u16>("CountMinSketch<u16>::deserialize", &ctx, st)?,
        "cm_u32" => cm_deliver::<u32>("CountMinSketch<u32>::deserialize", &ctx, st)?,
        "cm_u64" => cm_deliver::<u64>("CountMinSketch<u64>::deserialize", &ctx, st)?,
        "cm_i8" => cm_deliver::<i8>("CountMinSketch<i8>::deserialize", &ctx, st)?,
        "cm_i16" => cm_deliver::<i16>("CountMinSketch<i16>::deserialize", &ctx, st)?,
        "cm_i32" => cm_deliver::<i32>("CountMinSketch<i32>::deserialize", &ctx, st)?,
        "cm_i64" => cm_deliver::<i64>("CountMinSketch<i64>::deserialize", &ctx, st)?,
        "fi_i64" => {
            if let Some(v) = read("FrequentItemsSketch<i64>::deserialize", "", &ctx, st, fi_implied::<i64>, || FrequentItemsSketch::<i64>::deserialize(buf))? {
                recover_fi(v, |i| i as i64 - 5, &ctx, st)?;
            }
        }
        "fi_u64" => {
            if let Some(v) = read("FrequentItemsSketch<u64>::deserialize", "", &ctx, st, fi_implied::<u64>, || FrequentItemsSketch::<u64>::deserialize(buf))? {
                recover_fi(v, |i| i, &ctx, st)?;
            }
        }
        "fi_str" => {
            if let Some(v) = read("FrequentItemsSketch<String>::deserialize", "", &ctx, st, fi_implied::<String>, || FrequentItemsSketch::<String>::deserialize(buf))? {
                recover_fi(v, corpus::fi_item_str, &ctx, st)?;
            }
        }
        "td" => {
            // a digest reserves its centroid array and buffer from k (configuration-implied size)
            let td_implied = |v: &TDigestMut| (2 * v.k() as usize + 30) * (16 + 4 * 8);
            if let Some(v) = read("TDigestMut::deserialize(f64)", "", &ctx, st, td_implied, || TDigestMut::deserialize(buf, false))? {
                recover_td(v, &ctx, st)?;
            }
            if let Some(v) = read("TDigestMut::deserialize(f32)", "", &ctx, st, td_implied, || TDigestMut::deserialize(buf, true))? {
                recover_td(v, &ctx, st)?;
            }
        }
        _ => {}
    }
    Ok(())
}

fn fi_implied<T: std::hash::Hash + Eq>(v: &FrequentItemsSketch<T>) -> usize {
    // three parallel arrays per slot: Option<T> (<= 32 bytes), u64, u16
    (1usize << v.lg_cur_map_size().min(40)) * 48
}

fn cm_deliver<T: CountMinValue + std::fmt::Debug>(label: &'static str, ctx: &Ctx, st: &mut RunStats) -> Result<(), Violation> {
    let buf = ctx.buf;
    if let Some(v) = read(
        label,
        flag_sub(buf, 1),
        ctx,
        st,
        |v: &CountMinSketch<T>| v.num_hashes() as usize * v.num_buckets() as usize * std::mem::size_of::<T>(),
        || CountMinSketch::<T>::deserialize(buf),
    )? {
        recover_cm(v, ctx, st)?;
    }
    Ok(())
}

fn gen_fault(rng: &mut Rng, len: usize) -> Fault {
    let l = len.max(1) as u64;
    let head = l.min(64);
    let size = *rng.pick(&[8u32, 32, 64, 512]);
    match rng.below(14) {
        0 | 1 => Fault::Trunc { at: rng.below(l + 1) as u32 },
        2 | 3 => Fault::BitFlip { bit: if rng.chance(2, 3) { rng.below(head * 8) } else { rng.below(l * 8) } as u32 },
        4 | 5 => Fault::ByteSet { pos: if rng.chance(2, 3) { rng.below(head.min(48)) } else { rng.below(l) } as u32, val: if rng.chance(3, 4) { *rng.pick(&BYTE_VALUES) } else { rng.next_u32() as u8 } },
        6 | 7 => {
            let width = *rng.pick(&[2u8, 4, 8]);
            let vals = field_values(width, len);
            Fault::FieldSet { pos: (rng.below(head) as u32 / width as u32) * width as u32, width, val: *rng.pick(&vals) }
        }
        8 => Fault::ZeroSector { sector: rng.next_u32() % 64, size },
        9 => Fault::StaleSector { sector: rng.next_u32() % 64, size },
        10 => Fault::DupSector { from: rng.next_u32() % 64, to: rng.next_u32() % 64, size },
        11 => Fault::SwapSector { a: rng.next_u32() % 64, b: rng.next_u32() % 64, size },
        _ => Fault::Extend { kind: rng.below(3) as u8, len: rng.range(1, 64) as u32 },
    }
}

impl Scenario for C14 {
    type Cfg = Spec;
    type Act = Act;
    fn name(&self) -> &'static str {
        "c14_corruption"
    }
    fn isolate(&self) -> bool {
        true
    }
    fn resumable(&self) -> bool {
        true
    }
    fn runs(&self, tier: Tier) -> u64 {
        match tier {
            Tier::Quick => 1_900,
            Tier::Thorough => 190_000,
        }
    }
    fn generate(&self, rng: &mut Rng, _tier: Tier) -> (Spec, Vec<Act>) {
        let fam = *rng.pick(corpus::FAMILIES);
        let spec = corpus::gen_spec(rng, fam);
        // the length is needed to aim faults inside the image; building is a pure function of the spec
        let len = std::panic::catch_unwind(|| corpus::build_image(&spec, 0).len()).unwrap_or(64);
        let mut acts = vec![];
        // swarm: which fault campaigns this run carries
        let campaigns = rng.below(1 << 6) | 1 << rng.below(6);
        let l = len as u32;
        if fam.ends_with("_foreign") {
            // foreign-writer images (some of them self-consistent lies) are also delivered as they are
            acts.push(Act::Deliver { faults: vec![] });
        }
        if campaigns & 1 != 0 {
            // truncation at every offset (bounded for long images: dense head and tail)
            if l <= 1500 {
                acts.push(Act::TruncRange { from: 0, to: l });
            } else {
                acts.push(Act::TruncRange { from: 0, to: 300 });
                acts.push(Act::TruncRange { from: l - 100, to: l });
                for _ in 0..200 {
                    let a = rng.below(l as u64) as u32;
                    acts.push(Act::Deliver { faults: vec![Fault::Trunc { at: a }] });
                }
            }
        }
        if campaigns & 2 != 0 {
            acts.push(Act::BitFlipRange { from: 0, to: l.min(64) * 8 });
        }
        if campaigns & 4 != 0 {
            acts.push(Act::ByteSetRange { from: 0, to: l.min(48) });
        }
        if campaigns & 4 != 0 && campaigns & 8 != 0 {
            acts.push(Act::HeaderPairs);
        }
        if fam.starts_with("cpc") && campaigns & 6 != 0 {
            acts.push(Act::CpcPairs);
        }
        if campaigns & 8 != 0 {
            let w = *rng.pick(&[2u8, 4, 8]);
            acts.push(Act::FieldSetRange { from: 0, to: l.min(64), width: w });
        }
        if campaigns & 16 != 0 {
            let n = 20 + rng.usize_below(60);
            for _ in 0..n {
                let nf = 1 + rng.usize_below(3);
                let faults = (0..nf).map(|_| gen_fault(rng, len)).collect();
                if rng.chance(1, 5) {
                    let to = *rng.pick(corpus::FAMILIES);
                    acts.push(Act::Misroute { faults, to: to.to_string() });
                } else {
                    acts.push(Act::Deliver { faults });
                }
            }
        }
        if campaigns & 32 != 0 {
            for _ in 0..4 {
                let other = corpus::gen_spec(rng, fam);
                acts.push(Act::Splice { other, cut: rng.below(len as u64 + 1) as u32 });
            }
            for _ in 0..20 {
                let to = *rng.pick(corpus::FAMILIES);
                acts.push(Act::RandomBuf { len: rng.below(257) as u32, seed: rng.next_u64(), to: to.to_string() });
            }
            for to in corpus::FAMILIES {
                acts.push(Act::Misroute { faults: vec![], to: to.to_string() });
            }
        }
        (spec, acts)
    }

    fn execute(&self, spec: &Spec, acts: &[Act], st: &mut RunStats) -> Result<(), Violation> {
        // Writer node. A panic while *building* a valid sketch is not C14's business (C17's).
        let img = match lib_call("writer", || corpus::build_image(spec, 0)) {
            Ok(i) => i,
            Err(_) => {
                st.probe("writer_panicked");
                return Ok(());
            }
        };
        let old = lib_call("writer(prev)", || corpus::build_image(spec, 1)).unwrap_or_default();
        st.observe(&img);
        st.shape_seq(crate::rng::fnv1a(spec.fam.as_bytes()));
        st.shape_seq(img.len().min(4096) as u64 / 64);
        let fam = corpus::reader_family(spec.fam.as_str());
        if fam != spec.fam.as_str() {
            st.fault("foreign_writer_image");
        }
        // the pristine image must be readable (a failure here is reported as such)
        deliver(fam, &img, "none (pristine image)", st)?;
        // every delivery is independent: record a failure (one per class per run) and keep going,
        // so that one defective parser site does not hide the others
        macro_rules! deliver {
            ($fam:expr, $buf:expr, $what:expr, $st:expr) => {
                match deliver($fam, $buf, $what, $st) {
                    Ok(()) => Ok::<(), Violation>(()),
                    Err(v) if v.invariant.starts_with("harness.") => Err(v),
                    Err(v) => {
                        $st.record(v);
                        Ok(())
                    }
                }
            };
        }
        for (k, a) in acts.iter().enumerate() {
            st.ticks += 1;
            crate::core::progress(k);
            match a {
                Act::Deliver { faults } => {
                    let mut b = img.clone();
                    for f in faults {
                        apply_fault(&mut b, &old, f, st);
                    }
                    st.nontrivial = true;
                    deliver!(fam, &b, &format!("{faults:?}"), st)?;
                }
                Act::Misroute { faults, to } => {
                    let mut b = img.clone();
                    for f in faults {
                        apply_fault(&mut b, &old, f, st);
                    }
                    st.fault("misroute");
                    st.nontrivial = true;
                    deliver!(to, &b, &format!("misrouted {fam}->{to} {faults:?}"), st)?;
                }
                Act::TruncRange { from, to } => {
                    for at in *from..(*to).min(img.len() as u32 + 1) {
                        st.fault("truncate");
                        deliver!(fam, &img[..at as usize], &format!("Trunc at {at}"), st)?;
                    }
                    st.nontrivial = true;
                }
                Act::BitFlipRange { from, to } => {
                    for bit in *from..(*to).min(img.len() as u32 * 8) {
                        let mut b = img.clone();
                        b[bit as usize / 8] ^= 1 << (bit % 8);
                        st.fault("bit_flip");
                        deliver!(fam, &b, &format!("BitFlip bit {bit}"), st)?;
                    }
                    st.nontrivial = true;
                }
                Act::ByteSetRange { from, to } => {
                    for pos in *from..(*to).min(img.len() as u32) {
                        // boundary values, plus neighbours of the value the field currently holds
                        let o = img[pos as usize];
                        let rel = [o.wrapping_add(1), o.wrapping_sub(1), o.wrapping_add(2), o.wrapping_sub(2), o.wrapping_mul(2), o / 2];
                        let mut vals: Vec<u8> = BYTE_VALUES.to_vec();
                        vals.extend_from_slice(&rel);
                        vals.sort_unstable();
                        vals.dedup();
                        for val in vals {
                            if img[pos as usize] == val {
                                continue;
                            }
                            let mut b = img.clone();
                            b[pos as usize] = val;
                            st.fault("byte_set");
                            deliver!(fam, &b, &format!("ByteSet pos {pos} val {val:#x}"), st)?;
                        }
                    }
                    st.nontrivial = true;
                }
                Act::FieldSetRange { from, to, width } => {
                    let w = *width as usize;
                    if w == 0 || w > 8 {
                        continue;
                    }
                    let vals = field_values(*width, img.len());
                    let mut pos = (*from as usize).div_ceil(w) * w;
                    while pos < *to as usize && pos + w <= img.len() {
                        for &val in &vals {
                            let mut b = img.clone();
                            b[pos..pos + w].copy_from_slice(&val.to_le_bytes()[..w]);
                            st.fault("field_set");
                            deliver!(fam, &b, &format!("FieldSet pos {pos} width {w} val {val:#x}"), st)?;
                        }
                        pos += w;
                    }
                    st.nontrivial = true;
                }
                Act::HeaderPairs => {
                    let counts: [u32; 10] = [0, 1, 127, 4095, 32767, 65535, (1 << 24) + 1, (1 << 26) - 1, i32::MAX as u32, u32::MAX];
                    for bpos in 0..8usize.min(img.len()) {
                        for bval in [1u8, 2, 3, 7, 8, 12, 16, 21, 26, 0xff] {
                            for fpos in (4..24usize).step_by(4) {
                                if fpos + 4 > img.len() || (fpos..fpos + 4).contains(&bpos) {
                                    continue;
                                }
                                for &c in &counts {
                                    let mut b = img.clone();
                                    b[bpos] = bval;
                                    b[fpos..fpos + 4].copy_from_slice(&c.to_le_bytes());
                                    st.fault("header_pair");
                                    deliver!(fam, &b, &format!("HeaderPair byte {bpos}={bval:#x} field {fpos}={c:#x}"), st)?;
                                }
                            }
                        }
                    }
                    // ... and every pair of header bytes (two size exponents that must agree, e.g. lg_max / lg_cur)
                    for i in 0..8usize.min(img.len()) {
                        for j in i + 1..8usize.min(img.len()) {
                            for vi in [0u8, 1, 3, 4, 8, 16, 26, 31, 0xff] {
                                for vj in [0u8, 1, 3, 4, 8, 16, 26, 31, 0xff] {
                                    let mut b = img.clone();
                                    b[i] = vi;
                                    b[j] = vj;
                                    st.fault("header_byte_pair");
                                    deliver!(fam, &b, &format!("HeaderBytes {i}={vi:#x} {j}={vj:#x}"), st)?;
                                }
                            }
                        }
                    }
                    st.nontrivial = true;
                }
                Act::CpcPairs => {
                    let Ok(parts) = crate::speccodec::cpc::split_table(&img) else { continue };
                    use crate::speccodec::cpc::with_pairs;
                    let k = 1u32 << parts.lg_k;
                    let n = parts.pairs.len();
                    if n == 0 {
                        continue;
                    }
                    // the encoder is validated on every image: the identity re-encoding must be accepted
                    match with_pairs(&img, &parts, &parts.pairs) {
                        Some(b) => {
                            let ok = lib_call("CpcSketch::deserialize(identity re-encoding)", || CpcSketch::deserialize(&b).is_ok())?;
                            if !ok {
                                return Err(Violation::new("harness.cpc_reencode", format!("identity re-encoding of a valid CPC table was rejected ({} pairs, lg_k {})", n, parts.lg_k)));
                            }
                        }
                        None => return Err(Violation::new("harness.cpc_reencode", "identity re-encoding failed".to_string())),
                    }
                    let mut variants: Vec<(String, Vec<(u32, u8)>)> = vec![];
                    let last = parts.pairs[n - 1];
                    // the last pair moved to every column of its own row, of the last row, and of rows at / beyond k
                    for row in [last.0, k - 1, k, k + 1, 2 * k - 1] {
                        for col in 0..64u8 {
                            let mut p = parts.pairs.clone();
                            p[n - 1] = (row, col);
                            variants.push((format!("last pair -> ({row},{col})"), p));
                        }
                    }
                    // an extra pair appended (declared count grows with it)
                    for (row, col) in [(last.0, last.1), (last.0, 63), (k - 1, 0), (k - 1, 55), (k - 1, 56), (k - 1, 63), (k, 0)] {
                        let mut p = parts.pairs.clone();
                        p.push((row, col));
                        variants.push((format!("appended ({row},{col})"), p));
                    }
                    // interior pairs: duplicate, raise the column to the edge values, drop
                    let picks: Vec<usize> = (0..n).step_by((n / 12).max(1)).collect();
                    for &i in &picks {
                        let mut p = parts.pairs.clone();
                        p.insert(i, parts.pairs[i]);
                        variants.push((format!("pair {i} duplicated"), p));
                        for col in [55u8, 56, 57, 63] {
                            let mut p = parts.pairs.clone();
                            p[i].1 = col;
                            variants.push((format!("pair {i} column -> {col}"), p));
                        }
                        let mut p = parts.pairs.clone();
                        p.remove(i);
                        if !p.is_empty() {
                            variants.push((format!("pair {i} dropped"), p));
                        }
                    }
                    for (what, p) in variants {
                        if let Some(b) = with_pairs(&img, &parts, &p) {
                            st.fault("cpc_pairs_reencoded");
                            deliver!(fam, &b, &format!("CpcPairs {what} (lg_k {}, {} pairs, window {})", parts.lg_k, p.len(), parts.has_window), st)?;
                        }
                    }
                    st.nontrivial = true;
                }
                Act::Splice { other, cut } => {
                    let Ok(o) = lib_call("writer(other)", || corpus::build_image(other, 0)) else { continue };
                    let c = (*cut as usize).min(img.len());
                    let mut b = img[..c].to_vec();
                    if c < o.len() {
                        b.extend_from_slice(&o[c..]);
                    }
                    st.fault("splice");
                    st.nontrivial = true;
                    deliver!(fam, &b, &format!("Splice cut {c} with image of {other:?}"), st)?;
                }
                Act::RandomBuf { len, seed, to } => {
                    let b = Rng::new(*seed).bytes(*len as usize);
                    st.fault("random_buffer");
                    deliver!(to, &b, "RandomBuf", st)?;
                }
            }
        }
        Ok(())
    }

    fn shrink_action(&self, a: &Act) -> Vec<Act> {
        let halves = |from: u32, to: u32| -> Vec<(u32, u32)> {
            if to <= from + 1 {
                vec![]
            } else {
                let mid = from + (to - from) / 2;
                vec![(from, mid), (mid, to)]
            }
        };
        match a {
            Act::TruncRange { from, to } => halves(*from, *to).into_iter().map(|(f, t)| Act::TruncRange { from: f, to: t }).collect(),
            Act::BitFlipRange { from, to } => halves(*from, *to).into_iter().map(|(f, t)| Act::BitFlipRange { from: f, to: t }).collect(),
            Act::ByteSetRange { from, to } => halves(*from, *to).into_iter().map(|(f, t)| Act::ByteSetRange { from: f, to: t }).collect(),
            Act::FieldSetRange { from, to, width } => {
                let w = *width as u32;
                if *to <= *from + w { vec![] } else {
                    let mid = from + ((to - from) / 2 / w.max(1)).max(1) * w;
                    vec![Act::FieldSetRange { from: *from, to: mid, width: *width }, Act::FieldSetRange { from: mid, to: *to, width: *width }]
                }
            }
            Act::Deliver { faults } if faults.len() > 1 => (0..faults.len())
                .map(|i| {
                    let mut f = faults.clone();
                    f.remove(i);
                    Act::Deliver { faults: f }
                })
                .collect(),
            Act::Misroute { faults, to } if !faults.is_empty() => (0..faults.len())
                .map(|i| {
                    let mut f = faults.clone();
                    f.remove(i);
                    Act::Misroute { faults: f, to: to.clone() }
                })
                .collect(),
            _ => vec![],
        }
    }

    fn shrink_cfg(&self, c: &Spec) -> Vec<Spec> {
        let mut out = vec![];
        if c.n > 0 {
            for n in [0, c.n / 2, c.n - 1] {
                if n != c.n {
                    let mut s = c.clone();
                    s.n = n;
                    out.push(s);
                }
            }
        }
        out
    }
}
