//! Reference one-shot MurmurHash3-x64-128 (64-bit seed variant used by DataSketches) and XXH64,
//! written from the published algorithms (Appleby's MurmurHash3_x64_128; Collet's XXH64
//! specification). Shares no code with `datasketches/src/hash`. Validated at start-up against
//! canonical vectors (`self_test`).

const C1: u64 = 0x87c3_7b91_1142_53d5;
const C2: u64 = 0x4cf5_ad43_2745_937f;

fn fmix(mut k: u64) -> u64 {
    k ^= k >> 33;
    k = k.wrapping_mul(0xff51_afd7_ed55_8ccd);
    k ^= k >> 33;
    k = k.wrapping_mul(0xc4ce_b9fe_1a85_ec53);
    k ^= k >> 33;
    k
}

fn le64(b: &[u8]) -> u64 {
    let mut v = 0u64;
    for (i, &x) in b.iter().enumerate().take(8) {
        v |= (x as u64) << (8 * i);
    }
    v
}

pub fn murmur3_x64_128(data: &[u8], seed: u64) -> (u64, u64) {
    let mut h1 = seed;
    let mut h2 = seed;
    let nblocks = data.len() / 16;
    for i in 0..nblocks {
        let mut k1 = le64(&data[i * 16..i * 16 + 8]);
        let mut k2 = le64(&data[i * 16 + 8..i * 16 + 16]);
        k1 = k1.wrapping_mul(C1);
        k1 = k1.rotate_left(31);
        k1 = k1.wrapping_mul(C2);
        h1 ^= k1;
        h1 = h1.rotate_left(27);
        h1 = h1.wrapping_add(h2);
        h1 = h1.wrapping_mul(5).wrapping_add(0x52dc_e729);
        k2 = k2.wrapping_mul(C2);
        k2 = k2.rotate_left(33);
        k2 = k2.wrapping_mul(C1);
        h2 ^= k2;
        h2 = h2.rotate_left(31);
        h2 = h2.wrapping_add(h1);
        h2 = h2.wrapping_mul(5).wrapping_add(0x3849_5ab5);
    }
    let tail = &data[nblocks * 16..];
    let mut k1 = 0u64;
    let mut k2 = 0u64;
    // the canonical switch with fall-through, written as byte loops
    for i in (8..tail.len()).rev() {
        k2 ^= (tail[i] as u64) << (8 * (i - 8));
    }
    if tail.len() > 8 {
        k2 = k2.wrapping_mul(C2);
        k2 = k2.rotate_left(33);
        k2 = k2.wrapping_mul(C1);
        h2 ^= k2;
    }
    for i in (0..tail.len().min(8)).rev() {
        k1 ^= (tail[i] as u64) << (8 * i);
    }
    if !tail.is_empty() {
        k1 = k1.wrapping_mul(C1);
        k1 = k1.rotate_left(31);
        k1 = k1.wrapping_mul(C2);
        h1 ^= k1;
    }
    let len = data.len() as u64;
    h1 ^= len;
    h2 ^= len;
    h1 = h1.wrapping_add(h2);
    h2 = h2.wrapping_add(h1);
    h1 = fmix(h1);
    h2 = fmix(h2);
    h1 = h1.wrapping_add(h2);
    h2 = h2.wrapping_add(h1);
    (h1, h2)
}

/// Multiplicative inverse of an odd number modulo 2^64 (Newton iteration).
fn inv_odd(a: u64) -> u64 {
    let mut x = a; // correct to 3 bits
    for _ in 0..6 {
        x = x.wrapping_mul(2u64.wrapping_sub(a.wrapping_mul(x)));
    }
    x
}

fn unfmix(mut k: u64) -> u64 {
    // inverse of: k ^= k >> 33; k *= M1; k ^= k >> 33; k *= M2; k ^= k >> 33
    k ^= k >> 33;
    k = k.wrapping_mul(inv_odd(0xc4ce_b9fe_1a85_ec53));
    k ^= k >> 33;
    k = k.wrapping_mul(inv_odd(0xff51_afd7_ed55_8ccd));
    k ^= k >> 33;
    k
}

/// A 16-byte key (as the little-endian bytes of a u128) whose MurmurHash3 x64 128 digest under
/// `seed` is exactly `(h1, h2)`: every step of the single-block computation is a bijection.
/// Lets a scenario drive the real update paths with prescribed hash values (all zero bits, a
/// single bit, 63 leading zeros ...) that no random item reaches.
pub fn murmur_preimage16(seed: u64, h1: u64, h2: u64) -> [u8; 16] {
    // undo the final additions and the finalisation mix
    let h2f = h2.wrapping_sub(h1);
    let h1f = h1.wrapping_sub(h2f);
    let (h1e, h2e) = (unfmix(h1f), unfmix(h2f));
    let h2d = h2e.wrapping_sub(h1e);
    let h1d = h1e.wrapping_sub(h2d);
    let (h1c, h2c) = (h1d ^ 16, h2d ^ 16);
    // undo the block round
    let inv5 = inv_odd(5);
    let y2 = h2c.wrapping_sub(0x3849_5ab5).wrapping_mul(inv5).wrapping_sub(h1c);
    let k2m = y2.rotate_right(31) ^ seed;
    let k2 = k2m.wrapping_mul(inv_odd(C1)).rotate_right(33).wrapping_mul(inv_odd(C2));
    let y1 = h1c.wrapping_sub(0x52dc_e729).wrapping_mul(inv5).wrapping_sub(seed);
    let k1m = y1.rotate_right(27) ^ seed;
    let k1 = k1m.wrapping_mul(inv_odd(C2)).rotate_right(31).wrapping_mul(inv_odd(C1));
    let mut out = [0u8; 16];
    out[..8].copy_from_slice(&k1.to_le_bytes());
    out[8..].copy_from_slice(&k2.to_le_bytes());
    out
}

const P1: u64 = 0x9E37_79B1_85EB_CA87;
const P2: u64 = 0xC2B2_AE3D_27D4_EB4F;
const P3: u64 = 0x1656_67B1_9E37_79F9;
const P4: u64 = 0x85EB_CA77_C2B2_AE63;
const P5: u64 = 0x27D4_EB2F_1656_67C5;

fn xround(acc: u64, input: u64) -> u64 {
    acc.wrapping_add(input.wrapping_mul(P2)).rotate_left(31).wrapping_mul(P1)
}
fn xmerge(acc: u64, val: u64) -> u64 {
    (acc ^ xround(0, val)).wrapping_mul(P1).wrapping_add(P4)
}

pub fn xxh64(data: &[u8], seed: u64) -> u64 {
    let len = data.len();
    let mut p = 0usize;
    let mut h: u64;
    if len >= 32 {
        let mut v1 = seed.wrapping_add(P1).wrapping_add(P2);
        let mut v2 = seed.wrapping_add(P2);
        let mut v3 = seed;
        let mut v4 = seed.wrapping_sub(P1);
        while p + 32 <= len {
            v1 = xround(v1, le64(&data[p..p + 8]));
            v2 = xround(v2, le64(&data[p + 8..p + 16]));
            v3 = xround(v3, le64(&data[p + 16..p + 24]));
            v4 = xround(v4, le64(&data[p + 24..p + 32]));
            p += 32;
        }
        h = v1.rotate_left(1).wrapping_add(v2.rotate_left(7)).wrapping_add(v3.rotate_left(12)).wrapping_add(v4.rotate_left(18));
        h = xmerge(h, v1);
        h = xmerge(h, v2);
        h = xmerge(h, v3);
        h = xmerge(h, v4);
    } else {
        h = seed.wrapping_add(P5);
    }
    h = h.wrapping_add(len as u64);
    while p + 8 <= len {
        let k1 = xround(0, le64(&data[p..p + 8]));
        h ^= k1;
        h = h.rotate_left(27).wrapping_mul(P1).wrapping_add(P4);
        p += 8;
    }
    if p + 4 <= len {
        let k = le64(&data[p..p + 4]);
        h ^= k.wrapping_mul(P1);
        h = h.rotate_left(23).wrapping_mul(P2).wrapping_add(P3);
        p += 4;
    }
    while p < len {
        h ^= (data[p] as u64).wrapping_mul(P5);
        h = h.rotate_left(11).wrapping_mul(P1);
        p += 1;
    }
    h ^= h >> 33;
    h = h.wrapping_mul(P2);
    h ^= h >> 29;
    h = h.wrapping_mul(P3);
    h ^= h >> 32;
    h
}

/// DataSketches seed hash: low 16 bits of h1 of murmur3(le64(seed), seed 0).
pub fn seed_hash(seed: u64) -> u16 {
    (murmur3_x64_128(&seed.to_le_bytes(), 0).0 & 0xffff) as u16
}

/// Canonical vectors. Panics (harness error) if the reference itself is wrong.
pub fn self_test() {
    for (seed, h1, h2) in [(0u64, 0u64, 0u64), (9001, 0, 1), (9001, u64::MAX, 0), (7, 0x1234_5678_9abc_def0, 3), (u64::MAX, 1, u64::MAX)] {
        let key = murmur_preimage16(seed, h1, h2);
        assert_eq!(murmur3_x64_128(&key, seed), (h1, h2), "refhash murmur preimage");
    }
    let fox = b"The quick brown fox jumps over the lazy dog";
    assert_eq!(murmur3_x64_128(b"", 0), (0, 0), "refhash murmur empty");
    assert_eq!(
        murmur3_x64_128(fox, 0),
        (0xe34b_bc7b_bc07_1b6c, 0x7a43_3ca9_c49a_9347),
        "refhash murmur fox"
    );
    assert_eq!(xxh64(b"", 0), 0xEF46_DB37_51D8_E999, "refhash xxh64 empty");
    assert_eq!(xxh64(b"a", 0), 0xD24E_C4F1_A98C_6E5B, "refhash xxh64 a");
    assert_eq!(xxh64(b"abc", 0), 0x44BC_2CF5_AD77_0999, "refhash xxh64 abc");
    assert_eq!(xxh64(fox, 0), 0x0B24_2D36_1FDA_71BC, "refhash xxh64 fox");
}
