//! The only source of randomness in the simulator: SplitMix64 for seed derivation and
//! xoshiro256** for the per-run stream. Nothing here reads a clock or any ambient state.

#[inline]
pub fn splitmix64(state: &mut u64) -> u64 {
    *state = state.wrapping_add(0x9E37_79B9_7F4A_7C15);
    let mut z = *state;
    z = (z ^ (z >> 30)).wrapping_mul(0xBF58_476D_1CE4_E5B9);
    z = (z ^ (z >> 27)).wrapping_mul(0x94D0_49BB_1331_11EB);
    z ^ (z >> 31)
}

/// FNV-1a, used to fold strings (property / scenario names) into seeds and for digests.
pub fn fnv1a(bytes: &[u8]) -> u64 {
    let mut h = 0xcbf2_9ce4_8422_2325u64;
    for &b in bytes {
        h ^= b as u64;
        h = h.wrapping_mul(0x0000_0100_0000_01B3);
    }
    h
}

pub fn mix(a: u64, b: u64) -> u64 {
    let mut s = a ^ b.rotate_left(32) ^ 0xD6E8_FEB8_6659_FD93;
    splitmix64(&mut s)
}

/// Per-run seed: a pure function of (VERIF_SEED, scenario name, run index).
pub fn run_seed(verif_seed: u64, scenario: &str, run: u64) -> u64 {
    let mut s = verif_seed ^ fnv1a(scenario.as_bytes());
    let a = splitmix64(&mut s);
    mix(a, run)
}

#[derive(Clone, Debug)]
pub struct Rng {
    s: [u64; 4],
}

impl Rng {
    pub fn new(seed: u64) -> Self {
        let mut sm = seed;
        let s = [
            splitmix64(&mut sm),
            splitmix64(&mut sm),
            splitmix64(&mut sm),
            splitmix64(&mut sm),
        ];
        Rng { s }
    }

    #[inline]
    pub fn next_u64(&mut self) -> u64 {
        let result = self.s[1].wrapping_mul(5).rotate_left(7).wrapping_mul(9);
        let t = self.s[1] << 17;
        self.s[2] ^= self.s[0];
        self.s[3] ^= self.s[1];
        self.s[1] ^= self.s[2];
        self.s[0] ^= self.s[3];
        self.s[2] ^= t;
        self.s[3] = self.s[3].rotate_left(45);
        result
    }

    #[inline]
    pub fn next_u32(&mut self) -> u32 {
        (self.next_u64() >> 32) as u32
    }

    /// Uniform in [0, n). n == 0 returns 0.
    #[inline]
    pub fn below(&mut self, n: u64) -> u64 {
        if n == 0 {
            return 0;
        }
        // multiply-shift; bias is < 2^-32 for the n used here and irrelevant to soundness
        ((self.next_u64() as u128 * n as u128) >> 64) as u64
    }

    #[inline]
    pub fn range(&mut self, lo: u64, hi_incl: u64) -> u64 {
        debug_assert!(lo <= hi_incl);
        lo + self.below(hi_incl - lo + 1)
    }

    #[inline]
    pub fn usize_below(&mut self, n: usize) -> usize {
        self.below(n as u64) as usize
    }

    #[inline]
    pub fn chance(&mut self, num: u64, den: u64) -> bool {
        self.below(den) < num
    }

    #[inline]
    pub fn f64(&mut self) -> f64 {
        (self.next_u64() >> 11) as f64 * (1.0 / (1u64 << 53) as f64)
    }

    pub fn pick<'a, T>(&mut self, xs: &'a [T]) -> &'a T {
        &xs[self.usize_below(xs.len())]
    }

    /// Geometric: number of leading "successes" with p = 1/2, capped.
    pub fn geometric(&mut self, cap: u32) -> u32 {
        let z = self.next_u64().leading_zeros();
        z.min(cap)
    }

    pub fn bytes(&mut self, n: usize) -> Vec<u8> {
        let mut v = Vec::with_capacity(n);
        while v.len() < n {
            let w = self.next_u64().to_le_bytes();
            let take = (n - v.len()).min(8);
            v.extend_from_slice(&w[..take]);
        }
        v
    }

    pub fn shuffle<T>(&mut self, xs: &mut [T]) {
        for i in (1..xs.len()).rev() {
            let j = self.usize_below(i + 1);
            xs.swap(i, j);
        }
    }

    pub fn fork(&mut self) -> Rng {
        Rng::new(self.next_u64())
    }
}
