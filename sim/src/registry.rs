//! Which scenarios decide which property, in which build profiles, and the evidence boilerplate.

use crate::core::{DynScenario, Tier};
use crate::scen;

pub fn all_scenarios() -> Vec<Box<dyn DynScenario>> {
    vec![Box::new(scen::c16::C16), Box::new(scen::c14::C14)]
}

pub fn find_scenario(name: &str) -> Option<Box<dyn DynScenario>> {
    all_scenarios().into_iter().find(|s| s.name() == name)
}

pub struct Part {
    pub scenario: &'static str,
    /// profiles to run in: "release" and/or "armed"
    pub quick: &'static [&'static str],
    pub thorough: &'static [&'static str],
    /// scale the scenario's default run count (per mille) when used for this property
    pub scale_pm: u64,
}

pub struct PropSpec {
    pub id: &'static str,
    pub level: &'static str,
    pub parts: Vec<Part>,
    pub rule: &'static str,
    pub assumptions: Vec<&'static str>,
    pub components_real: Vec<&'static str>,
    pub components_stub: Vec<&'static str>,
}

const REL: &[&str] = &["release"];
const BOTH: &[&str] = &["release", "armed"];
#[allow(dead_code)]
const ARMED: &[&str] = &["armed"];

pub fn property(id: &str) -> Option<PropSpec> {
    let p = |scenario, quick, thorough| Part { scenario, quick, thorough, scale_pm: 1000 };
    Some(match id {
        "C16" => PropSpec {
            id: "C16",
            level: "exploration",
            parts: vec![p("c16_chunking", REL, BOTH)],
            rule: "one run = 20-50 independent hashing actions drawn from the run PRNG: a byte string (len 0..=200, random / all-zero / all-0xff) + seed (0, 9001, u64::MAX, random) + a chunking of its bytes into successive Hasher::write calls (one big write, single-byte writes, cuts on 16/32-byte block edges, zero-length writes, random cuts; ALL 2^(n-1) splits for n<=12), checked against the one-shot reference digest; plus derived quantities through the public API (HLL coupon, theta hash, CPC row/col, Count-Min buckets, Bloom positions, seed hash) and replica pairs fed the same items under different chunkings. A run is non-trivial if at least one action used a chunking with >= 1 cut; distinct = distinct (set of chunking-fault kinds fired, ordered sequence of (len mod 32, algo) / action sizes) keys.",
            assumptions: vec![
                "reference MurmurHash3-x64-128 / XXH64 in sim/src/refhash.rs are correct (validated at start-up against canonical vectors)",
                "std's Hash impls for u64/i64/str feed little-endian bytes (and a 0xff terminator for str) to Hasher::write",
            ],
            components_real: vec!["MurmurHash3X64128 / XxHash64 Hasher::write + finish (via verif hooks and via every sketch's update)", "HllSketch, ThetaSketch, CpcSketch, CountMinSketch<u64>, BloomFilter update/insert + serialize"],
            components_stub: vec!["chunking seam (harness Hash impl choosing the write boundaries)", "reference hashes (oracle)"],
        },
        "C14" => PropSpec {
            id: "C14",
            level: "fault_enumeration",
            parts: vec![p("c14_corruption", BOTH, BOTH)],
            rule: "one run = one valid image written by a real Writer node (family, configuration, mode and stream drawn from the run PRNG; 19 family/variant kinds incl. union results) plus a swarm-chosen subset of fault campaigns on the raw disk/wire: truncation at EVERY byte offset, every single-bit flip in the first 64 bytes, every byte of the first 48 bytes set to each of 17 boundary values, every aligned u16/u32/u64 header field set to boundary values (0,1,max-1,max,2^k,2^k+-1,len,len+-1), 20-80 random 1-3-fault combinations (truncate, bit flip, byte set, field set, zeroed/stale/duplicated/swapped sectors of 8/32/64/512 bytes, extension), splices with another image of the family, random buffers, and misrouting to every other family's reader. Each damaged buffer goes to every deserialize entry point of the family under an allocation scope and a panic guard in a supervised child; every Ok value then runs the recovery workload (accessors, 64 updates, merges both ways, to_sketch, re-serialize, re-deserialize). evaluations = runs (images); damaged buffers delivered = sum of faults_fired. A run is non-trivial if at least one damaged buffer was delivered; distinct = distinct (family, image-length bucket, set of fault kinds fired, reader Ok/Err outcomes) keys.",
            assumptions: vec![
                "allocation accounting is per thread and per call scope (net of frees inside the scope); budget 64*len + 64 KiB, except values whose own configuration implies their size (empty-form Bloom / Count-Min, purged Frequent Items map), exempt up to the 1 GiB hard cap",
                "operations on damaged-but-Ok values are limited to those whose documented preconditions can still be met (no additions when a total would exceed the counter type)",
            ],
            components_real: vec!["every deserialize entry point + CpcWrapper::new", "all accessors, update, merge/union, to_sketch/compact/freeze, serialize on the values returned", "Writer node: real sketches of every family producing the pristine images"],
            components_stub: vec!["raw disk / wire with fault injector", "allocator seam (counting + 1 GiB hard cap)", "child-process supervisor (abort / hang detection)"],
        },
        _ => return None,
    })
}

pub fn profiles(part: &Part, tier: Tier) -> &'static [&'static str] {
    match tier {
        Tier::Quick => part.quick,
        Tier::Thorough => part.thorough,
    }
}
