//! Which scenarios decide which property, in which build profiles, and the evidence boilerplate.

use crate::core::{DynScenario, Tier};
use crate::scen;

pub fn all_scenarios() -> Vec<Box<dyn DynScenario>> {
    vec![Box::new(scen::c16::C16), Box::new(scen::c14::C14), Box::new(scen::c02::C02), Box::new(scen::c03::C03), Box::new(scen::c05::C05), Box::new(scen::c06::C06), Box::new(scen::c07::C07), Box::new(scen::c08::C08), Box::new(scen::c09::C09), Box::new(scen::c10::TdScen { mode: 0 }), Box::new(scen::c10::TdScen { mode: 1 }), Box::new(scen::c12::C12), Box::new(scen::c13::C13), Box::new(scen::c11::C11), Box::new(scen::c11::C17Extremes), Box::new(scen::c18::C18)]
}

pub fn find_scenario(name: &str) -> Option<Box<dyn DynScenario>> {
    all_scenarios().into_iter().find(|s| s.name() == name)
}

pub struct Part {
    pub scenario: &'static str,
    /// profiles to run in: "release" and/or "armed"
    pub quick: &'static [&'static str],
    pub thorough: &'static [&'static str],
    /// scale the scenario's default run count (per mille) when used for this property
    pub scale_pm: u64,
    /// count only panics / aborts of this part for the property (C17 re-runs other properties' scenarios)
    pub panic_only: bool,
}

pub struct PropSpec {
    pub id: &'static str,
    pub level: &'static str,
    pub parts: Vec<Part>,
    pub rule: &'static str,
    pub assumptions: Vec<&'static str>,
    pub components_real: Vec<&'static str>,
    pub components_stub: Vec<&'static str>,
}

const REL: &[&str] = &["release"];
const BOTH: &[&str] = &["release", "armed"];
#[allow(dead_code)]
const ARMED: &[&str] = &["armed"];

pub fn property(id: &str) -> Option<PropSpec> {
    let p = |scenario, quick, thorough| Part { scenario, quick, thorough, scale_pm: 1000, panic_only: false };
    let pp = |scenario, scale_pm| Part { scenario, quick: BOTH, thorough: BOTH, scale_pm, panic_only: true };
    Some(match id {
        "C16" => PropSpec {
            id: "C16",
            level: "exploration",
            parts: vec![p("c16_chunking", REL, BOTH)],
            rule: "one run = 20-50 independent hashing actions drawn from the run PRNG: a byte string (len 0..=200, random / all-zero / all-0xff) + seed (0, 9001, u64::MAX, random) + a chunking of its bytes into successive Hasher::write calls (one big write, single-byte writes, cuts on 16/32-byte block edges, zero-length writes, random cuts; ALL 2^(n-1) splits for n<=12), checked against the one-shot reference digest; plus derived quantities through the public API (HLL coupon, theta hash, CPC row/col, Count-Min buckets, Bloom positions, seed hash) and replica pairs fed the same items under different chunkings. A run is non-trivial if at least one action used a chunking with >= 1 cut; distinct = distinct (set of chunking-fault kinds fired, ordered sequence of (len mod 32, algo) / action sizes) keys.",
            assumptions: vec![
                "reference MurmurHash3-x64-128 / XXH64 in sim/src/refhash.rs are correct (validated at start-up against canonical vectors)",
                "std's Hash impls for u64/i64/str feed little-endian bytes (and a 0xff terminator for str) to Hasher::write",
            ],
            components_real: vec!["MurmurHash3X64128 / XxHash64 Hasher::write + finish (via verif hooks and via every sketch's update)", "HllSketch, ThetaSketch, CpcSketch, CountMinSketch<u64>, BloomFilter update/insert + serialize"],
            components_stub: vec!["chunking seam (harness Hash impl choosing the write boundaries)", "reference hashes (oracle)"],
        },
        "C14" => PropSpec {
            id: "C14",
            level: "fault_enumeration",
            parts: vec![p("c14_corruption", BOTH, BOTH)],
            rule: "one run = one valid image written by a real Writer node (family, configuration, mode and stream drawn from the run PRNG; 19 family/variant kinds incl. union results) plus a swarm-chosen subset of fault campaigns on the raw disk/wire: truncation at EVERY byte offset, every single-bit flip in the first 64 bytes, every byte of the first 48 bytes set to each of 17 boundary values, every aligned u16/u32/u64 header field set to boundary values (0,1,max-1,max,2^k,2^k+-1,len,len+-1), 20-80 random 1-3-fault combinations (truncate, bit flip, byte set, field set, zeroed/stale/duplicated/swapped sectors of 8/32/64/512 bytes, extension), splices with another image of the family, random buffers, and misrouting to every other family's reader. Each damaged buffer goes to every deserialize entry point of the family under an allocation scope and a panic guard in a supervised child; every Ok value then runs the recovery workload (accessors, 64 updates, merges both ways, to_sketch, re-serialize, re-deserialize). evaluations = runs (images); damaged buffers delivered = sum of faults_fired. A run is non-trivial if at least one damaged buffer was delivered; distinct = distinct (family, image-length bucket, set of fault kinds fired, reader Ok/Err outcomes) keys.",
            assumptions: vec![
                "allocation accounting is per thread and per call scope (net of frees inside the scope); budget 64*len + 64 KiB, except values whose own configuration implies their size (empty-form Bloom / Count-Min, purged Frequent Items map), exempt up to the 1 GiB hard cap",
                "operations on damaged-but-Ok values are limited to those whose documented preconditions can still be met (no additions when a total would exceed the counter type)",
            ],
            components_real: vec!["every deserialize entry point + CpcWrapper::new", "all accessors, update, merge/union, to_sketch/compact/freeze, serialize on the values returned", "Writer node: real sketches of every family producing the pristine images"],
            components_stub: vec!["raw disk / wire with fault injector", "allocator seam (counting + 1 GiB hard cap)", "child-process supervisor (abort / hang detection)"],
        },
        "C02" => PropSpec {
            id: "C02",
            level: "exploration",
            parts: vec![p("c02_hll_replicas", REL, BOTH)],
            rule: "one run = one lg_k, one coupon stream (1-3 phases drawn from 9 generators: uniform/geometric, hot slots, staircase forcing Hll4 cur_min shifts, staircase with values >= cur_min+15, exact repeats and values to 63, same-register different-coupon, bursts sitting on promotion thresholds, dense fill, descending values; or hashed items) delivered to six replicas: group A (Hll4/6/8) on one totally ordered channel with duplicates, group B (Hll4/6/8) each on its own at-least-once channel with PRNG-chosen reordering, duplicate delivery and loss/retransmit. After every shared-channel delivery: bit-identical estimate and bounds across the three types; at every mode transition, at scripted Check points and at quiescence: coupon set / registers / cur_min / num_at_cur_min / aux map / kxq equal to the textbook model of what was delivered, both via the state hook and via serialize() decoded by the independent reader; at quiescence all six replicas converge. A run is non-trivial if a group-B delivery happened; distinct = distinct (fault kinds fired, probes reached, sequence of mode transitions, lg_k, final mode) keys.",
            assumptions: vec!["HLL coupon derivation from an item is checked by C16 and reused here for hashed items", "speccodec HLL decoder (DESIGN.md Appendix A) for the image view; a decoder rejection is counted as a probe here and judged by C12"],
            components_real: vec!["HllSketch::update / update_with_coupon (all modes, promotions, Array4/6/8, AuxMap)", "estimate / lower_bound / upper_bound", "serialize"],
            components_stub: vec!["ordered and at-least-once channels (harness)", "textbook register model (oracle)", "independent HLL image decoder"],
        },
        "C03" => PropSpec {
            id: "C03",
            level: "exploration",
            parts: vec![p("c03_hll_union", REL, BOTH)],
            rule: "one run = 2-6 workers (lg_k x type x target mode empty/list/set/array), 2-3 aggregators holding HllUnion(lg_max_k) plus a root, an action script of worker updates, flushes in three forms (borrowed in-memory sketch; serialize() image on the wire; image of the sketch first passed through a throw-away union, i.e. out-of-order), foreign array images with the out-of-order flag, at-least-once delivery with reorder / duplicate / loss, update_value, reset, to_sketch(t)->root. After every delivery: estimate > 0 once a non-empty input arrived, lg_config_k; at Check points and at quiescence for every aggregator and every t: coupon set or max-folded registers equal to the model of the contributions since reset at lg = min(lg_max_k, array inputs), estimate/bounds bit-identical across t and equal to the union's own. A run is non-trivial if at least one message was delivered over the wire; distinct = distinct (fault kinds, sequence of (contribution kind, flush form), final lg_k) keys.",
            assumptions: vec!["order/repetition independence is demanded of register/coupon state and lg_k only, never of the estimate (HIP is history-dependent by design)", "foreign images use the updatable layout without aux exceptions (variants are C13's)"],
            components_real: vec!["HllUnion::update / update_value / reset / to_sketch / estimate / bounds / lg_config_k", "HllSketch::serialize + deserialize on every wire delivery"],
            components_stub: vec!["at-least-once network (harness)", "ForeignWriter (independent HLL encoder)", "contribution-set model (oracle)"],
        },
        "C05" => PropSpec {
            id: "C05",
            level: "exploration",
            parts: vec![p("c05_cpc_replicas", REL, BOTH)],
            rule: "one run = one lg_k and one (row,col) stream (1-3 phases from 7 generators: hash-like uniform/geometric, column-major fills that walk Empty->Sparse->Hybrid->Pinned->Sliding and move the window up to offset 56 at small lg_k while leaving early-zone holes that are set later, right-shifted geometric columns, full rows, bursts on the 3K/32, K/2, 27K/8 thresholds, exact repeats; or hashed items) delivered to two replicas on a shared ordered channel (with duplicates) and three replicas on their own at-least-once channels (reorder, duplicate, loss). After every delivery num_coupons == model popcount; at every flavor / window-offset change, at Check points and at quiescence: reconstructed bit matrix == model matrix, validate(), window offset and window allocation equal to the documented functions of C (wide integers), first_interesting_column sound (no zero below it), identical sequence => bit-identical estimate; replicas converge at quiescence. Non-trivial = a group-B delivery happened; distinct = distinct (fault kinds, probes, sequence of (flavor, offset) transitions, lg_k).",
            assumptions: vec!["row/col derivation from an item is checked by C16 and reused for hashed items", "the image view of the state is checked by C12 (CPC decoder), not here"],
            components_real: vec!["CpcSketch::update / row_col_update (sparse, windowed, move_window, PairTable insert/delete/rebuild)", "num_coupons, validate, estimate, bounds"],
            components_stub: vec!["ordered and at-least-once channels", "bit-matrix model (oracle)"],
        },
        "C06" => PropSpec {
            id: "C06",
            level: "exploration",
            parts: vec![p("c06_cpc_union", REL, BOTH)],
            rule: "one run = 1-6 workers (lg_k 4..=12, steered into every flavor), 2-3 aggregators with CpcUnion(lg_k) plus a root, a script of worker updates, flushes (in memory / serialize() on the wire), at-least-once delivery with reorder / duplicate / loss, to_sketch()->root (in memory or over the wire). After every delivery and at Check points / quiescence: union lg_k == min over union and non-empty inputs, num_coupons == popcount of the OR of the folded input matrices, to_sketch() result matrix == that OR, validate(), offset / window / first_interesting_column consistent, marked merged, image without HIP section. Non-trivial = a wire delivery happened; distinct = distinct (fault kinds, sequence of (input flavor, form), final lg_k).",
            assumptions: vec!["wire deliveries go through the real serialize/deserialize, whose own losslessness is C11's subject"],
            components_real: vec!["CpcUnion::update (cases A-D, reduce_k) / to_sketch / num_coupons / lg_k", "CpcSketch::serialize + deserialize on wire deliveries"],
            components_stub: vec!["at-least-once network", "OR-of-folded-matrices model (oracle)"],
        },
        "C07" => PropSpec {
            id: "C07",
            level: "exploration",
            parts: vec![p("c07_frequent_items", REL, BOTH)],
            rule: "one run = 2-6 nodes with FrequentItemsSketch<i64|u64|String> (equal or mixed map sizes 8..=2048), a script of update bursts (all-equal counts filling the map exactly so that a purge removes every counter; Zipf-skewed; all-distinct; one giant plus dust; weights to 2^40), flushes between arbitrary nodes (a random merge tree/DAG; in memory or as a serialize() image over an exactly-once network with reorder, wire duplicates suppressed by the receiver, loss/retransmit), framed checkpoints (synced or not) and crash/restart (torn or surviving newest generation, fallback to the older one, WAL replay). After every event: total_weight exact, active items <= capacity, maximum_error <= epsilon*total for single-size ancestries; after every merge / restart / Check and at quiescence, for EVERY item of the domain: lb <= truth <= ub, ub-lb <= maximum_error, estimate in {0} U [lb,ub]; frequent_items(NoFalsePositives) subset of, (NoFalseNegatives) superset of, the true heavy hitters; rows sorted and equal to point queries. Non-trivial = a wire delivery or a restart happened; distinct = distinct (item kind, fault kinds, probes, sequence of flush kinds).",
            assumptions: vec!["exactly-once delivery is provided by the harness (receiver de-dup); duplicates never reach merge()", "the harness WAL is durable; only checkpoint images can be torn, and torn ones are rejected by the harness frame CRC, never handed to the library"],
            components_real: vec!["FrequentItemsSketch<i64|u64|String>: update_with_count, merge, purge/resize, estimate/lower_bound/upper_bound/maximum_error/total_weight/frequent_items, serialize/deserialize on wire and checkpoint paths"],
            components_stub: vec!["exactly-once network", "framed checkpoint store + WAL", "exact frequency map (oracle)"],
        },
        "C08" => PropSpec {
            id: "C08",
            level: "exploration",
            parts: vec![p("c08_count_min", REL, BOTH)],
            rule: "one run = one counter type (u8..u64, i8..i64), shape (num_hashes 1..=8, num_buckets 3..=512, seed) and 2-4 nodes; a script of weighted update bursts (weights 0, small, up to max/64, always keeping every total inside the counter type), flushes between nodes (in memory or serialize() image over an exactly-once network with reorder / loss), and for unsigned types halve / decay epochs broadcast to all nodes while contributions are in flight. After every update total_weight is exact; after every merge / Check / quiescence the serialized table equals the model table built with the reference MurmurHash3 and row-seed derivation, and for every inserted item plus 8 never-inserted probes: estimate >= truth, estimate <= total, lower_bound <= estimate <= upper_bound; after an epoch every cell lies between its scaled and old value and estimate >= the correspondingly scaled truth. The confidence clause is counted per batch (trials / exceedances per num_hashes). Non-trivial = a wire delivery happened; distinct = distinct (type, num_hashes, fault kinds) keys.",
            assumptions: vec!["negative weights and totals beyond the counter type are outside the property and never generated", "reference MurmurHash3 (C16) for the model table"],
            components_real: vec!["CountMinSketch<T>: update_with_weight, estimate, bounds, total_weight, merge, halve, decay, serialize/deserialize on wire paths"],
            components_stub: vec!["exactly-once network", "epoch broadcaster", "exact truth map and model table (oracle)"],
        },
        "C09" => PropSpec {
            id: "C09",
            level: "exploration",
            parts: vec![p("c09_bloom", REL, BOTH)],
            rule: "one run = one filter shape (1..=2^16 requested bits incl. non-multiples of 64, num_hashes 1..=16, seed) and 2-4 nodes; a script of insert / contains_and_insert bursts, unions (in memory or serialize() image over an at-least-once network with reorder, duplicate delivery, loss), intersect epochs (operand in memory or through serialize/deserialize), invert, reset, foreign images carrying the dirty bit-count marker, and occasional with_accuracy(n,p) probes. After every insert bits_used == model popcount and capacity == bits rounded up to 64; after every set operation / delivery / Check / quiescence the serialized bit array equals the model array built with reference XXH64 double hashing, every member (inserted directly or into a union operand; intersection of member sets after intersect) is contained - also after a serialize/deserialize round trip - contains() agrees with the reference positions on 16 never-inserted probes, contains_and_insert returns the prior membership by bits. False-positive rate of with_accuracy filters is counted per batch. Non-trivial = a wire delivery happened; distinct = distinct (num_hashes, word alignment, fault kinds) keys.",
            assumptions: vec!["reference XXH64 (C16) for the model bit positions", "after invert no membership promise is carried over (the model member set is cleared)"],
            components_real: vec!["BloomFilter insert / contains / contains_and_insert / union / intersect / invert / reset / bits_used / capacity / is_compatible, BloomFilterBuilder::with_size / with_accuracy, serialize / deserialize"],
            components_stub: vec!["at-least-once network", "ForeignWriter (independent Bloom encoder, dirty marker)", "member set + model bit vector (oracle)"],
        },
        "C10" => PropSpec {
            id: "C10",
            level: "exploration",
            parts: vec![p("c10_tdigest", REL, BOTH)],
            rule: "one run = 1-16 nodes with TDigestMut(k), k 10..=500, a script of value streams (10 shapes: sorted, reversed, uniform, heavy duplicates, clustered, mixed signs, magnitudes 1e-300..1e300, +-0.0 and subnormals, normal-like, heavy tail; NaN / +-inf interleaved and expected to be ignored), flushes along a PRNG-drawn merge DAG (borrowed digest, serialize() image over an exactly-once network with reorder / loss, freeze->unfreeze), framed checkpoints with crash/restart (torn or surviving newest generation, WAL replay), and foreign digests (1..60 sorted positive-weight centroids with heavy first / last / single centroids and min/max beyond the extreme means, in the native f64, native f32, reference asBytes and asSmallBytes encodings). After every merge, restart, foreign contribution, Check and at quiescence: total_weight == number of finite values, min/max exact, rank on a 257-point grid plus centroid means and their neighbours monotone / in [0,1] / 0 below min / 1 above max, quantile on 259 q values monotone / in [min,max] / exact at 0 and 1, rank(quantile(q)) within the digest's own resolution, cdf == rank, pmf == first differences summing to 1 for split lists of length 0, 1, 2, 17, and identical answers from the frozen TDigest. Non-trivial = a wire delivery, restart or foreign contribution happened; distinct = distinct (node count, stream shapes, flush forms, fault kinds) keys.",
            assumptions: vec!["monotonicity is checked with an absolute tolerance of 1e-12 on ranks and 1e-12*max(|min|,|max|) on quantiles (floating-point interpolation)", "the resolution bound uses the centroid list read from the digest's own serialize() by the independent decoder"],
            components_real: vec!["TDigestMut update / merge / compress / rank / quantile / cdf / pmf / min_value / max_value / total_weight / freeze, TDigest rank / quantile / cdf / unfreeze, serialize / deserialize (native f64, f32, reference-implementation forms)"],
            components_stub: vec!["exactly-once network", "framed checkpoint store + WAL", "ForeignWriter (independent t-digest encoder)", "exact multiset model"],
        },
        "C15" => PropSpec {
            id: "C15",
            level: "exploration",
            parts: vec![p("c15_tdigest", REL, BOTH)],
            rule: "same cluster and scripts as C10 (streams up to 3*10^4 values per burst in quick, 3*10^5 in thorough; merge DAGs of up to 16 digests; restarts; foreign digests), with the size/accuracy oracle set: at every power-of-two prefix of a node's stream, after every merge / restart / Check and at quiescence the centroid list parsed from serialize() has <= 2k+30 centroids (image <= 16(2k+30)+32 bytes), weights sum to total_weight, means are sorted and inside [min,max]; for nodes whose whole ancestry is exact data, rank(v) on the 257-point grid is within C*q(1-q)Z/2k + 1.5/n of the interval of admissible true ranks (C frozen after calibration, see DESIGN.md), and exact to one sample at the extremes. Non-trivial / distinct as in C10.",
            assumptions: vec!["the accuracy constant C was calibrated once on the unchanged tree (3x the largest observed ratio) and is frozen in sim/src/scen/c10.rs", "nodes with a foreign digest in their ancestry are exempt from the exact-data clause (their data is not known), not from size / conservation"],
            components_real: vec!["TDigestMut update / merge / compress / rank / serialize / deserialize"],
            components_stub: vec!["exactly-once network", "framed checkpoint store + WAL", "ForeignWriter", "sorted exact data (oracle)"],
        },
        "C12" => PropSpec {
            id: "C12",
            level: "exploration",
            parts: vec![p("c12_layout", REL, BOTH)],
            rule: "one run = one family (HLL, CPC, theta, Bloom, Count-Min over all eight counter types, Frequent Items i64/u64/String, t-digest) and configuration, a Writer history of 2-10 steps (crafted coupons / row_cols / hashes through the hooks, hashed items, weighted items, value streams, a union or merge with a second sketch of another lg_k / size, trim / invert) with an Emit after PRNG-chosen steps and at the end; every emitted image is decoded by the independent speccodec reader (which rejects what a Java/C++ reader would reject or misread: preamble sizes, serial version, family, flags, field order, endianness, total length exactly as the header implies) and the decoded abstract state is compared with the reference model of the stream: HLL (mode, coupons or nibble/6-bit/8-bit registers, cur_min, num_at_cur_min, aux pairs, kxq, hip, OOO flag), CPC (lg_k, fic, flags, HIP fields, matrix decompressed with decode tables derived from the encode tables), theta v3 and v4 (entries, theta, flags, seed hash, minimal delta width and count bytes), Bloom, Count-Min, Frequent Items (empty / no-counters / regular forms), t-digest (empty / single / regular). Non-trivial = an image was emitted; distinct = distinct (family, probes = image kinds reached, fault kinds) keys.",
            assumptions: vec![
                "the transcription of the format in DESIGN.md Appendix A (trusted base; a disagreement is triaged as repository defect or codec mistake, never as a known finding if it is the codec's)",
                "CPC entropy-coding table DATA (encode tables and encode permutations only) is taken from the repository's compression_data.rs; a corruption of an encode table together with its decode table is outside what this check can see",
                "for theta the abstract state is read from the mutable sketch's own accessors (C04 is not claimed)",
            ],
            components_real: vec!["every serialize method: HllSketch, CompactThetaSketch::serialize / serialize_compressed, CpcSketch, BloomFilter, CountMinSketch<T>, FrequentItemsSketch<T>, TDigestMut", "the update / union / merge paths that build the states"],
            components_stub: vec!["ForeignReader: independent decoder per family (sim/src/speccodec)", "reference models of the streams"],
        },
        "C13" => PropSpec {
            id: "C13",
            level: "exploration",
            parts: vec![p("c13_foreign_images", REL, BOTH)],
            rule: "one run = 2-7 independent deliveries of foreign images produced by the independent spec encoder from PRNG-drawn abstract states: HLL (list / set / array x Hll4/6/8 x compact and updatable layouts incl. updatable set tables, compact-flag arrays, compact and updatable Hll4 aux sections, out-of-order flag), theta serial versions 1-4 (empty, single item with and without the SINGLE_ITEM flag, exact, estimating, ordered and unordered, Java and C++ padding field), t-digest native f64 / f32 with and without buffered values and the reference-implementation asBytes / asSmallBytes encodings (heavy extreme centroids with min/max beyond them), Bloom with dirty or clean bit counts, Frequent Items longs / UTF-8 strings / empty forms, Count-Min for all eight counter types. Each image is deserialized by the real reader; accessors must equal the encoded state; a union / merge with a locally built sketch must equal the model union; further updates keep it equal to the model; the re-serialized image goes back through the independent decoder. Non-trivial = every run; distinct = distinct (variant kinds delivered, probes) keys.",
            assumptions: vec!["the format transcription of DESIGN.md Appendix A (as for C12)", "abstract states are kept inside what the respective Java/C++ writers can emit (e.g. v4 only for ordered non-empty non-single sketches; set mode only within its load factor)"],
            components_real: vec!["HllSketch::deserialize + HllUnion", "CompactThetaSketch::deserialize_with_seed (v1-v4) + serialize / serialize_compressed", "TDigestMut::deserialize (f64, f32, compat) + rank / quantile / merge / update", "BloomFilter::deserialize", "FrequentItemsSketch<i64|String>::deserialize", "CountMinSketch<T>::deserialize_with_seed"],
            components_stub: vec!["ForeignWriter: independent encoder per family (sim/src/speccodec)", "ForeignReader for the re-serialized images", "abstract-state models"],
        },
        "C11" => PropSpec {
            id: "C11",
            level: "exploration",
            parts: vec![p("c11_roundtrip", REL, BOTH)],
            rule: "one run = one family (HLL sketch, HllUnion aggregator, CPC sketch, CpcUnion aggregator, compact theta, Bloom, Count-Min over the eight counter types, Frequent Items i64/u64/String, t-digest), a primary and a never-crashed twin fed the identical PRNG-drawn history (crafted coupons / row_cols / hashes / weighted items / value streams, merges and unions with peers of other sizes, local operations such as trim, invert, halve, decay, reset), framed checkpoints of the primary (synced or not), crashes at PRNG-chosen points with the unsynced newest generation torn or surviving, restart = newest verifiable generation -> real deserialize -> WAL replay; every run ends with the degenerate checkpoint-crash-restart schedule followed by one more update batch and one more merge. After every operation that follows a restart, at Compare steps and at the end: every public accessor equal bit for bit (estimates, all bounds at 1/2/3 sigma, totals, per-item queries over the domain, rank/quantile grids, contains over the domain, frequent_items), images byte-identical where canonical, equal as decoded state otherwise (Hll4 aux order, list order, Frequent Items item order), CpcWrapper equal to the sketch. Theta takes part in the degenerate form only (compact -> bytes -> compact, both serial forms, delta widths 1..63, byte-identical re-serialization). Non-trivial = a restart happened; distinct = distinct (family, fault kinds, probes) keys.",
            assumptions: vec!["the harness frame (len|image|crc32) rejects torn checkpoints, so the library only ever restores intact images; the harness WAL is durable", "unions (which have no serialized form) are checkpointed as to_sketch().serialize() and restored by feeding the image to a fresh union; they are compared on the results they hand out, not on HIP history"],
            components_real: vec!["serialize / deserialize of every family", "all accessors", "update / merge / union paths applied after a restore", "CpcWrapper::new"],
            components_stub: vec!["framed checkpoint store, write cache, WAL", "crash injector", "never-crashed twin (real library, same history) as the oracle", "independent decoders for non-canonical layouts"],
        },
        "C17" => PropSpec {
            id: "C17",
            level: "exploration",
            parts: vec![
                p("c17_extremes", BOTH, BOTH),
                pp("c02_hll_replicas", 250),
                pp("c03_hll_union", 250),
                pp("c05_cpc_replicas", 250),
                pp("c06_cpc_union", 250),
                pp("c07_frequent_items", 250),
                pp("c08_count_min", 250),
                pp("c09_bloom", 250),
                pp("c10_tdigest", 250),
                pp("c15_tdigest", 250),
                pp("c11_roundtrip", 250),
                pp("c12_layout", 250),
                pp("c13_foreign_images", 250),
            ],
            rule: "every simulated scenario of the other claimed properties (HLL replicas and unions, CPC replicas and unions, Frequent Items / Count-Min / Bloom / t-digest clusters, crash-restart round trips, layout and foreign-image deliveries) is executed in valid-operations-only form in BOTH build profiles - release, and 'armed' = debug-assertions + overflow-checks on - with every library call under a panic guard; plus the dedicated c17_extremes scenario: the crash/restart history generator pinned to the documented configuration extremes (HLL lg_k 4 and 21, CPC lg_k 4, 16, 21, theta lg_k 5, t-digest k = 10, Frequent Items map size 8, Bloom 1 bit / 1 hash, Count-Min 1 x 3 with u8 / i8 / u16 / i16 counters), with staircase / column fills that cross every mode transition at lg_k 21. Any panic raised inside the library (class = source location and statement) is the violation; for c17_extremes the twin comparison stays armed so that silent wrap-around in the release profile surfaces as a mismatch. evaluations = runs over all parts and both profiles; non-trivial / distinct as defined by each scenario.",
            assumptions: vec!["valid use = the preconditions of DESIGN.md Appendix C; damaged images are C14's business and never generated here", "model mismatches found by the re-run scenarios are reported by their own property, not by C17 (only panics / aborts count for those parts)"],
            components_real: vec!["the whole public API of every family, in both build profiles"],
            components_stub: vec!["the harness components of the re-run scenarios", "panic hook + catch_unwind guard"],
        },
        "C18" => PropSpec {
            id: "C18",
            level: "exploration",
            parts: vec![p("c18_sizes", REL, BOTH)],
            rule: "one run = one long-lived worker (HLL lg_k 4..=14 x type, CPC lg_k 4..=12, theta lg_k 5..=12 x resize factor, Frequent Items map 8..=1024 x item kind, Bloom 1..=100000 bits, Count-Min up to 8 x 400 over all counter types) fed a stream of 1..2^18 items (2^22 in thorough; CPC up to C/K ~ 8) composed of PRNG-drawn pieces: distinct, repeated (small domain), adversarially ordered (sorted by derived coupon, ascending or descending), crafted coupons (HLL); at every power-of-two prefix and at the end the image is measured: HLL exactly 8+4c / 12+4c / 40 + k/2|3k/4+1|k + 4*aux with the promotion rule respected, theta retained <= 15/16*2k after every update and <= k after trim with compact images <= 24+8*retained, Frequent Items active <= capacity after every update and image <= 32 + capacity*(8+item), Bloom and Count-Min image length constant and as the configuration dictates; CPC images above max_serialized_bytes are counted per sketch lifetime and the batch rate is compared with the documented 0.1% (Bernstein margin 1e-9; hard limit 2x). Non-trivial = at least one item; distinct = distinct (family, modes reached, lg of stream length) keys.",
            assumptions: vec!["t-digest size is C15's subject", "the CPC bound is empirical for hashed streams; only hashed items are used for CPC here"],
            components_real: vec!["update paths and serialize of HllSketch, ThetaSketch/CompactThetaSketch, CpcSketch (+ max_serialized_bytes), FrequentItemsSketch, BloomFilter, CountMinSketch"],
            components_stub: vec!["measurement tap on the wire / disk seam", "stream generators"],
        },
        _ => return None,
    })
}

pub fn profiles(part: &Part, tier: Tier) -> &'static [&'static str] {
    match tier {
        Tier::Quick => part.quick,
        Tier::Thorough => part.thorough,
    }
}

/// Batch-level (statistical) clauses, evaluated over the aggregated counters of a whole batch.
/// One-sided, with a margin that bounds the false-alarm probability by 1e-9 under the documented rate.
pub fn batch_check(prop: &str, agg: &crate::core::Agg) -> Vec<crate::core::Violation> {
    let mut out = vec![];
    let l = (1e9f64).ln();
    match prop {
        "C08" => {
            for h in 1..=16u32 {
                let n = agg.probes.get(&format!("conf_trials_h{h}")).copied().unwrap_or(0) as f64;
                if n == 0.0 {
                    continue;
                }
                let x = agg.probes.get(&format!("conf_exceed_h{h}")).copied().unwrap_or(0) as f64;
                let sq = agg.probes.get(&format!("conf_trials_sq_h{h}")).copied().unwrap_or(0) as f64;
                let p = (-(h as f64)).exp();
                // Hoeffding over runs (trials inside one run share a table and are not independent)
                let t = (l * sq.max(n) / 2.0).sqrt();
                if x > n * p + t {
                    out.push(crate::core::Violation::new(
                        format!("C08.confidence_h{h}"),
                        format!("num_hashes {h}: {x} of {n} (item,node) pairs have estimate > truth + relative_error*total; documented rate e^-{h} = {p:.4} allows {:.0} + margin {:.0}", n * p, t),
                    ));
                }
            }
        }
        "C18" => {
            // the documented rate holds per configuration: one clause per lg_k, then the pooled one
            for lg in 4..=26u32 {
                let n = agg.probes.get(&format!("cpc_sketches_lgk{lg}")).copied().unwrap_or(0) as f64;
                let x = agg.probes.get(&format!("cpc_sketches_over_lgk{lg}")).copied().unwrap_or(0) as f64;
                if n > 0.0 {
                    let v = n * 0.001;
                    let t = l / 3.0 + (l * l / 9.0 + 2.0 * v * l).sqrt();
                    if x > v + t {
                        out.push(crate::core::Violation::new(
                            "C18.cpc_max_serialized_bytes_rate",
                            format!("lg_k {lg}: {x} of {n} CPC sketches produced an image above max_serialized_bytes({lg}) at some power-of-two prefix; the documented 0.1% allows {v:.2} + margin {t:.1}"),
                        ));
                    }
                }
            }
            let n = agg.probes.get("cpc_sketches").copied().unwrap_or(0) as f64;
            let x = agg.probes.get("cpc_sketches_with_an_image_over_max_serialized_bytes").copied().unwrap_or(0) as f64;
            if n > 0.0 {
                let p = 0.001;
                let v = n * p;
                let t = l / 3.0 + (l * l / 9.0 + 2.0 * v * l).sqrt();
                if x > n * p + t {
                    out.push(crate::core::Violation::new(
                        "C18.cpc_max_serialized_bytes_rate",
                        format!("{x} of {n} CPC sketches produced an image above max_serialized_bytes(lg_k) at some power-of-two prefix; the documented 0.1% allows {:.1} + margin {:.1}", n * p, t),
                    ));
                }
            }
        }
        "C09" => {
            for e in 1..=3u32 {
                let n = agg.probes.get(&format!("fpp_trials_p1e-{e}")).copied().unwrap_or(0) as f64;
                if n == 0.0 {
                    continue;
                }
                let x = agg.probes.get(&format!("fpp_false_positives_p1e-{e}")).copied().unwrap_or(0) as f64;
                let p = 10f64.powi(-(e as i32));
                // probes are hashed independently: given the filters the trials are independent
                // Bernoulli draws, so Bernstein's inequality with variance <= n * 1.5p applies
                let v = n * 1.5 * p;
                let t = l / 3.0 + (l * l / 9.0 + 2.0 * v * l).sqrt();
                if x > 1.5 * p * n + t {
                    out.push(crate::core::Violation::new(
                        format!("C09.fpp_p1e-{e}"),
                        format!("with_accuracy(n, 1e-{e}) filters loaded with n items: {x} false positives in {n} fresh probes; 1.5*p allows {:.0} + margin {:.0}", 1.5 * p * n, t),
                    ));
                }
            }
        }
        _ => {}
    }
    out
}
