//! Which scenarios decide which property, in which build profiles, and the evidence boilerplate.

use crate::core::{DynScenario, Tier};
use crate::scen;

pub fn all_scenarios() -> Vec<Box<dyn DynScenario>> {
    vec![Box::new(scen::c16::C16)]
}

pub fn find_scenario(name: &str) -> Option<Box<dyn DynScenario>> {
    all_scenarios().into_iter().find(|s| s.name() == name)
}

pub struct Part {
    pub scenario: &'static str,
    /// profiles to run in: "release" and/or "armed"
    pub quick: &'static [&'static str],
    pub thorough: &'static [&'static str],
    /// scale the scenario's default run count (per mille) when used for this property
    pub scale_pm: u64,
}

pub struct PropSpec {
    pub id: &'static str,
    pub level: &'static str,
    pub parts: Vec<Part>,
    pub rule: &'static str,
    pub assumptions: Vec<&'static str>,
    pub components_real: Vec<&'static str>,
    pub components_stub: Vec<&'static str>,
}

const REL: &[&str] = &["release"];
const BOTH: &[&str] = &["release", "armed"];
#[allow(dead_code)]
const ARMED: &[&str] = &["armed"];

pub fn property(id: &str) -> Option<PropSpec> {
    let p = |scenario, quick, thorough| Part { scenario, quick, thorough, scale_pm: 1000 };
    Some(match id {
        "C16" => PropSpec {
            id: "C16",
            level: "exploration",
            parts: vec![p("c16_chunking", REL, BOTH)],
            rule: "one run = 20-50 independent hashing actions drawn from the run PRNG: a byte string (len 0..=200, random / all-zero / all-0xff) + seed (0, 9001, u64::MAX, random) + a chunking of its bytes into successive Hasher::write calls (one big write, single-byte writes, cuts on 16/32-byte block edges, zero-length writes, random cuts; ALL 2^(n-1) splits for n<=12), checked against the one-shot reference digest; plus derived quantities through the public API (HLL coupon, theta hash, CPC row/col, Count-Min buckets, Bloom positions, seed hash) and replica pairs fed the same items under different chunkings. A run is non-trivial if at least one action used a chunking with >= 1 cut; distinct = distinct (set of chunking-fault kinds fired, ordered sequence of (len mod 32, algo) / action sizes) keys.",
            assumptions: vec![
                "reference MurmurHash3-x64-128 / XXH64 in sim/src/refhash.rs are correct (validated at start-up against canonical vectors)",
                "std's Hash impls for u64/i64/str feed little-endian bytes (and a 0xff terminator for str) to Hasher::write",
            ],
            components_real: vec!["MurmurHash3X64128 / XxHash64 Hasher::write + finish (via verif hooks and via every sketch's update)", "HllSketch, ThetaSketch, CpcSketch, CountMinSketch<u64>, BloomFilter update/insert + serialize"],
            components_stub: vec!["chunking seam (harness Hash impl choosing the write boundaries)", "reference hashes (oracle)"],
        },
        _ => return None,
    })
}

pub fn profiles(part: &Part, tier: Tier) -> &'static [&'static str] {
    match tier {
        Tier::Quick => part.quick,
        Tier::Thorough => part.thorough,
    }
}
