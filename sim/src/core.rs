//! Simulator core: scenario trait, per-run statistics, panic capture, batch runner (threads or
//! supervised child processes), script minimisation (ddmin), replay files, aggregation.

use crate::rng::{self, Rng};
use serde::de::DeserializeOwned;
use serde::{Deserialize, Serialize};
use serde_json::Value;
use std::cell::RefCell;
use std::collections::{BTreeMap, BTreeSet, HashMap};
use std::io::{BufRead, BufReader, Write};
use std::panic::{AssertUnwindSafe, catch_unwind};
use std::process::{Command, Stdio};
use std::sync::Mutex;
use std::sync::atomic::{AtomicU64, Ordering};

pub static CHILD_ACTION_BASE: AtomicU64 = AtomicU64::new(0);

/// Called by resumable scenarios at the start of action `k` (index within the slice being executed).
pub fn progress(k: usize) {
    if CHILD_RUN.load(Ordering::Relaxed) != u64::MAX {
        println!("P {}", k as u64 + CHILD_ACTION_BASE.load(Ordering::Relaxed));
    }
}

/// run index of the supervised child currently executing (u64::MAX when not a child)
pub static CHILD_RUN: AtomicU64 = AtomicU64::new(u64::MAX);

#[derive(Clone, Copy, Debug, PartialEq, Eq)]
pub enum Tier {
    Quick,
    Thorough,
}

impl Tier {
    pub fn parse(s: &str) -> Option<Tier> {
        match s {
            "quick" => Some(Tier::Quick),
            "thorough" => Some(Tier::Thorough),
            _ => None,
        }
    }
    pub fn as_str(&self) -> &'static str {
        match self {
            Tier::Quick => "quick",
            Tier::Thorough => "thorough",
        }
    }
}

pub fn profile_name() -> &'static str {
    if cfg!(debug_assertions) { "armed" } else { "release" }
}

#[derive(Clone, Debug, Serialize, Deserialize)]
pub struct Violation {
    /// stable class id: "<Cnn>.<invariant>" or "panic@<file>|<source line>" or "abort:<kind>"
    pub invariant: String,
    pub detail: String,
}

impl Violation {
    pub fn new(invariant: impl Into<String>, detail: impl Into<String>) -> Self {
        Violation { invariant: invariant.into(), detail: detail.into() }
    }
}

/// `check!(cond, "C02.regs", "fmt {}", x)` returns Err(Violation) from the enclosing function.
#[macro_export]
macro_rules! check {
    ($cond:expr, $inv:expr, $($arg:tt)*) => {
        if !($cond) {
            return Err($crate::core::Violation::new($inv, format!($($arg)*)));
        }
    };
}

#[derive(Default, Clone, Debug, Serialize, Deserialize)]
pub struct RunStats {
    pub faults: BTreeMap<String, u64>,
    pub probes: BTreeMap<String, u64>,
    pub ticks: u64,
    pub lib_calls: u64,
    pub nontrivial: bool,
    pub shape: u64,
    pub digest: u64,
    pub notes: Vec<String>,
    /// named maxima (e.g. calibration ratios), aggregated by max
    #[serde(default)]
    pub maxima: BTreeMap<String, f64>,
    /// violations recorded by scenarios that keep going after a failure (one per class per run)
    #[serde(skip)]
    pub extra: Vec<Violation>,
}

impl RunStats {
    /// record a violation and continue the run (used where many independent deliveries share a run)
    pub fn record(&mut self, v: Violation) {
        if self.extra.len() < 64 && !self.extra.iter().any(|e| e.invariant == v.invariant) {
            let run = CHILD_RUN.load(Ordering::Relaxed);
            if run != u64::MAX {
                // supervised child: report at once, the process may not survive the run
                println!("V {run} {}", serde_json::to_string(&v).unwrap());
            }
            self.extra.push(v);
        }
    }
    pub fn fault(&mut self, k: &str) {
        *self.faults.entry(k.to_string()).or_insert(0) += 1;
        self.shape_tag(k);
    }
    pub fn fault_n(&mut self, k: &str, n: u64) {
        if n > 0 {
            *self.faults.entry(k.to_string()).or_insert(0) += n;
            self.shape_tag(k);
        }
    }
    /// plain counter (reported under probes; does not contribute to the run's shape key)
    pub fn count(&mut self, k: &str, n: u64) {
        if n > 0 {
            *self.probes.entry(k.to_string()).or_insert(0) += n;
        }
    }
    pub fn maximum(&mut self, k: &str, v: f64) {
        if !v.is_finite() {
            return;
        }
        let e = self.maxima.entry(k.to_string()).or_insert(f64::NEG_INFINITY);
        if v > *e {
            *e = v;
        }
    }
    pub fn probe(&mut self, k: &str) {
        *self.probes.entry(k.to_string()).or_insert(0) += 1;
        self.shape_tag(k);
    }
    /// Order-insensitive contribution to the run's shape key (a set of tags).
    pub fn shape_tag(&mut self, k: &str) {
        // set semantics: OR of a 64-bit bloom-ish signature plus a commutative sum over a
        // per-run "seen" test would need memory; we use a commutative XOR of hashes guarded by
        // the faults/probes maps (first occurrence only).
        let h = rng::fnv1a(k.as_bytes());
        let first = self.faults.get(k).copied().unwrap_or(0) + self.probes.get(k).copied().unwrap_or(0) <= 1;
        if first {
            self.shape ^= rng::mix(h, 0x5eed);
        }
    }
    /// Ordered shape contribution (e.g. mode transitions in order).
    pub fn shape_seq(&mut self, v: u64) {
        self.shape = rng::mix(self.shape, v);
    }
    pub fn observe(&mut self, bytes: &[u8]) {
        self.digest = rng::mix(self.digest, rng::fnv1a(bytes));
    }
    pub fn observe_u64(&mut self, v: u64) {
        self.digest = rng::mix(self.digest, v);
    }
    pub fn observe_f64(&mut self, v: f64) {
        self.digest = rng::mix(self.digest, v.to_bits());
    }
    pub fn note(&mut self, s: String) {
        if self.notes.len() < 4 {
            self.notes.push(s);
        }
    }
}

#[derive(Clone, Debug, Serialize, Deserialize)]
pub struct ScriptJson {
    pub cfg: Value,
    pub actions: Vec<Value>,
}

/// A simulation scenario: a generator of (configuration, action script) pairs from a PRNG and a
/// deterministic executor of such scripts with the oracles built in.
pub trait Scenario: Sync + Send + 'static {
    type Cfg: Serialize + DeserializeOwned + Clone;
    type Act: Serialize + DeserializeOwned + Clone;
    fn name(&self) -> &'static str;
    /// number of runs in a batch
    fn runs(&self, tier: Tier) -> u64;
    /// run in supervised child processes (needed when the library may abort)
    fn isolate(&self) -> bool {
        false
    }
    fn generate(&self, rng: &mut Rng, tier: Tier) -> (Self::Cfg, Vec<Self::Act>);
    fn execute(&self, cfg: &Self::Cfg, acts: &[Self::Act], st: &mut RunStats) -> Result<(), Violation>;
    /// actions are independent of each other (a run may be resumed after action k when a
    /// supervised child died inside action k)
    fn resumable(&self) -> bool {
        false
    }
    /// simpler variants of one action (operand shrinking); default none
    fn shrink_action(&self, _a: &Self::Act) -> Vec<Self::Act> {
        vec![]
    }
    /// simpler variants of the configuration; default none
    fn shrink_cfg(&self, _c: &Self::Cfg) -> Vec<Self::Cfg> {
        vec![]
    }
}

pub trait DynScenario: Sync + Send {
    fn name(&self) -> &'static str;
    fn runs(&self, tier: Tier) -> u64;
    fn isolate(&self) -> bool;
    fn resumable(&self) -> bool;
    fn gen_script(&self, seed: u64, tier: Tier) -> ScriptJson;
    fn run_one(&self, seed: u64, tier: Tier, st: &mut RunStats) -> Result<(), Violation>;
    fn run_one_from(&self, seed: u64, tier: Tier, from: usize, st: &mut RunStats) -> Result<(), Violation>;
    fn exec_json(&self, script: &ScriptJson, st: &mut RunStats) -> Result<(), Violation>;
    fn shrink_action_json(&self, a: &Value) -> Vec<Value>;
    fn shrink_cfg_json(&self, c: &Value) -> Vec<Value>;
}

impl<S: Scenario> DynScenario for S {
    fn name(&self) -> &'static str {
        Scenario::name(self)
    }
    fn runs(&self, tier: Tier) -> u64 {
        Scenario::runs(self, tier)
    }
    fn isolate(&self) -> bool {
        Scenario::isolate(self)
    }
    fn gen_script(&self, seed: u64, tier: Tier) -> ScriptJson {
        let mut rng = Rng::new(seed);
        let (cfg, acts) = self.generate(&mut rng, tier);
        ScriptJson {
            cfg: serde_json::to_value(&cfg).expect("cfg to json"),
            actions: acts.iter().map(|a| serde_json::to_value(a).expect("act to json")).collect(),
        }
    }
    fn resumable(&self) -> bool {
        Scenario::resumable(self)
    }
    fn run_one(&self, seed: u64, tier: Tier, st: &mut RunStats) -> Result<(), Violation> {
        let mut rng = Rng::new(seed);
        let (cfg, acts) = self.generate(&mut rng, tier);
        self.execute(&cfg, &acts, st)
    }
    fn run_one_from(&self, seed: u64, tier: Tier, from: usize, st: &mut RunStats) -> Result<(), Violation> {
        let mut rng = Rng::new(seed);
        let (cfg, acts) = self.generate(&mut rng, tier);
        CHILD_ACTION_BASE.store(from as u64, Ordering::Relaxed);
        let r = self.execute(&cfg, &acts[from.min(acts.len())..], st);
        CHILD_ACTION_BASE.store(0, Ordering::Relaxed);
        r
    }
    fn exec_json(&self, script: &ScriptJson, st: &mut RunStats) -> Result<(), Violation> {
        let cfg: S::Cfg = match serde_json::from_value(script.cfg.clone()) {
            Ok(c) => c,
            Err(e) => return Err(Violation::new("harness.bad_script", format!("cfg: {e}"))),
        };
        let mut acts = Vec::with_capacity(script.actions.len());
        for a in &script.actions {
            match serde_json::from_value::<S::Act>(a.clone()) {
                Ok(x) => acts.push(x),
                Err(e) => return Err(Violation::new("harness.bad_script", format!("action: {e}"))),
            }
        }
        self.execute(&cfg, &acts, st)
    }
    fn shrink_action_json(&self, a: &Value) -> Vec<Value> {
        match serde_json::from_value::<S::Act>(a.clone()) {
            Ok(x) => self.shrink_action(&x).iter().map(|y| serde_json::to_value(y).unwrap()).collect(),
            Err(_) => vec![],
        }
    }
    fn shrink_cfg_json(&self, c: &Value) -> Vec<Value> {
        match serde_json::from_value::<S::Cfg>(c.clone()) {
            Ok(x) => self.shrink_cfg(&x).iter().map(|y| serde_json::to_value(y).unwrap()).collect(),
            Err(_) => vec![],
        }
    }
}

// ---------------------------------------------------------------------------------------------
// panic capture

#[derive(Clone, Debug, Default)]
pub struct PanicInfo {
    pub file: String,
    pub line: u32,
    pub message: String,
    pub lib_frame: Option<String>,
}

thread_local! {
    static LAST_PANIC: RefCell<Option<PanicInfo>> = const { RefCell::new(None) };
}

static SRC_CACHE: Mutex<Option<HashMap<String, Vec<String>>>> = Mutex::new(None);

fn source_line(file: &str, line: u32) -> Option<String> {
    let mut g = SRC_CACHE.lock().unwrap();
    let cache = g.get_or_insert_with(HashMap::new);
    if !cache.contains_key(file) {
        let lines = std::fs::read_to_string(file)
            .map(|s| s.lines().map(|l| l.trim().to_string()).collect::<Vec<_>>())
            .unwrap_or_default();
        cache.insert(file.to_string(), lines);
    }
    cache.get(file).and_then(|v| {
        let i = (line as usize).checked_sub(1)?;
        let mut t = v.get(i)?.clone();
        // a statement that opens a bracket at end of line is identified together with its next line
        let mut j = i + 1;
        while (t.ends_with('(') || t.ends_with('{') || t.ends_with(',') || t.ends_with("self")) && j < v.len() && j < i + 3 {
            t.push(' ');
            t.push_str(&v[j]);
            j += 1;
        }
        Some(t)
    })
}

pub fn install_panic_hook() {
    let verbose = std::env::var("VERIF_VERBOSE").is_ok();
    std::panic::set_hook(Box::new(move |info| {
        let (file, line) = info
            .location()
            .map(|l| (l.file().to_string(), l.line()))
            .unwrap_or_else(|| ("?".to_string(), 0));
        let message = if let Some(s) = info.payload().downcast_ref::<&str>() {
            s.to_string()
        } else if let Some(s) = info.payload().downcast_ref::<String>() {
            s.clone()
        } else {
            "<non-string panic payload>".to_string()
        };
        let mut lib_frame = None;
        if !file.starts_with("/repo/") && !file.contains("/verif/sim/") && !file.starts_with("src/") {
            // panic raised inside std: find the innermost datasketches frame
            let bt = std::backtrace::Backtrace::force_capture().to_string();
            for l in bt.lines() {
                let t = l.trim();
                if let Some(pos) = t.find("datasketches::") {
                    let f = &t[pos..];
                    if !f.starts_with("datasketches::verif") {
                        // strip the trailing ::h<16 hex> symbol hash
                        let mut name = f.to_string();
                        if let Some(p) = name.rfind("::h") {
                            if name.len() - p == 19 && name[p + 3..].chars().all(|c| c.is_ascii_hexdigit()) {
                                name.truncate(p);
                            }
                        }
                        lib_frame = Some(name);
                        break;
                    }
                }
            }
        }
        if verbose {
            eprintln!("[panic] {file}:{line}: {message}");
        }
        LAST_PANIC.with(|p| *p.borrow_mut() = Some(PanicInfo { file, line, message, lib_frame }));
    }));
}

fn normalise_msg(m: &str) -> String {
    let mut out = String::new();
    let mut prev_digit = false;
    for c in m.chars().take(120) {
        if c.is_ascii_digit() {
            if !prev_digit {
                out.push('#');
            }
            prev_digit = true;
        } else {
            prev_digit = false;
            out.push(if c == '\n' { ' ' } else { c });
        }
    }
    out
}

pub enum Outcome {
    Ok,
    Violation(Violation),
    HarnessError(String),
}

fn panic_to_outcome(p: PanicInfo) -> Outcome {
    let in_repo = p.file.starts_with("/repo/");
    let in_harness = p.file.contains("/verif/sim/") || p.file.starts_with("src/");
    if in_harness {
        return Outcome::HarnessError(format!("harness panic at {}:{}: {}", p.file, p.line, p.message));
    }
    if in_repo {
        let rel = p.file.trim_start_matches("/repo/").to_string();
        let src = source_line(&p.file, p.line).unwrap_or_else(|| format!("line {}", p.line));
        return Outcome::Violation(Violation::new(
            format!("panic@{rel}|{src}"),
            format!("{}:{}: {}", rel, p.line, p.message),
        ));
    }
    match p.lib_frame {
        Some(f) => Outcome::Violation(Violation::new(
            format!("panic@std-in|{f}|{}", normalise_msg(&p.message)),
            format!("{}:{}: {} (innermost library frame {f})", p.file, p.line, p.message),
        )),
        None => Outcome::HarnessError(format!(
            "panic outside library and harness at {}:{}: {}",
            p.file, p.line, p.message
        )),
    }
}

/// Run `f`, converting a panic into a violation (library) or a harness error.
pub fn guarded(f: impl FnOnce() -> Result<(), Violation>) -> Outcome {
    LAST_PANIC.with(|p| *p.borrow_mut() = None);
    match catch_unwind(AssertUnwindSafe(f)) {
        Ok(Ok(())) => Outcome::Ok,
        Ok(Err(v)) => {
            if v.invariant.starts_with("harness.") {
                Outcome::HarnessError(format!("{}: {}", v.invariant, v.detail))
            } else {
                Outcome::Violation(v)
            }
        }
        Err(_) => {
            let p = LAST_PANIC.with(|p| p.borrow_mut().take()).unwrap_or_default();
            panic_to_outcome(p)
        }
    }
}

/// Catch a panic of one library call inside a scenario and turn it into Err(Violation) with the
/// given call label in the detail (the class stays the panic site).
pub fn lib_call<R>(label: &str, f: impl FnOnce() -> R) -> Result<R, Violation> {
    LAST_PANIC.with(|p| *p.borrow_mut() = None);
    match catch_unwind(AssertUnwindSafe(f)) {
        Ok(r) => Ok(r),
        Err(_) => {
            let p = LAST_PANIC.with(|p| p.borrow_mut().take()).unwrap_or_default();
            match panic_to_outcome(p) {
                Outcome::Violation(mut v) => {
                    v.detail = format!("in {label}: {}", v.detail);
                    Err(v)
                }
                Outcome::HarnessError(e) => Err(Violation::new("harness.panic", e)),
                Outcome::Ok => unreachable!(),
            }
        }
    }
}

// ---------------------------------------------------------------------------------------------
// aggregation

#[derive(Default, Clone, Debug, Serialize, Deserialize)]
pub struct Agg {
    pub runs: u64,
    pub nontrivial_runs: u64,
    pub faults: BTreeMap<String, u64>,
    pub probes: BTreeMap<String, u64>,
    pub ticks: u64,
    pub lib_calls: u64,
    pub shapes: BTreeSet<u64>,
    pub digest_xor: u64,
    pub digest_sum: u64,
    pub notes: Vec<String>,
    #[serde(default)]
    pub maxima: BTreeMap<String, f64>,
}

impl Agg {
    pub fn add_run(&mut self, st: &RunStats) {
        self.runs += 1;
        for (k, v) in &st.faults {
            *self.faults.entry(k.clone()).or_insert(0) += v;
        }
        for (k, v) in &st.probes {
            *self.probes.entry(k.clone()).or_insert(0) += v;
        }
        self.ticks += st.ticks;
        self.lib_calls += st.lib_calls;
        if st.nontrivial {
            self.nontrivial_runs += 1;
            self.shapes.insert(st.shape);
        }
        self.digest_xor ^= st.digest;
        self.digest_sum = self.digest_sum.wrapping_add(rng::mix(st.digest, 1));
        for (k, v) in &st.maxima {
            let e = self.maxima.entry(k.clone()).or_insert(f64::NEG_INFINITY);
            if *v > *e {
                *e = *v;
            }
        }
        for n in &st.notes {
            if self.notes.len() < 8 && !self.notes.contains(n) {
                self.notes.push(n.clone());
            }
        }
    }
    pub fn merge(&mut self, o: &Agg) {
        self.runs += o.runs;
        self.nontrivial_runs += o.nontrivial_runs;
        for (k, v) in &o.faults {
            *self.faults.entry(k.clone()).or_insert(0) += v;
        }
        for (k, v) in &o.probes {
            *self.probes.entry(k.clone()).or_insert(0) += v;
        }
        self.ticks += o.ticks;
        self.lib_calls += o.lib_calls;
        self.shapes.extend(o.shapes.iter().copied());
        self.digest_xor ^= o.digest_xor;
        self.digest_sum = self.digest_sum.wrapping_add(o.digest_sum);
        for (k, v) in &o.maxima {
            let e = self.maxima.entry(k.clone()).or_insert(f64::NEG_INFINITY);
            if *v > *e {
                *e = *v;
            }
        }
        for n in &o.notes {
            if self.notes.len() < 8 && !self.notes.contains(n) {
                self.notes.push(n.clone());
            }
        }
    }
}

#[derive(Clone, Debug, Serialize, Deserialize)]
pub struct Found {
    pub class: String,
    pub detail: String,
    pub run: u64,
    pub seed: u64,
    pub count: u64,
    pub replay: Option<String>,
    pub minimised_from: usize,
    pub minimised_to: usize,
}

#[derive(Clone, Debug, Serialize, Deserialize)]
pub struct PartResult {
    pub property: String,
    pub scenario: String,
    pub profile: String,
    pub tier: String,
    pub seed: u64,
    pub agg: Agg,
    pub found: Vec<Found>,
    pub harness_errors: Vec<String>,
    pub samples: Vec<Value>,
    pub wall_s: f64,
}

#[derive(Clone, Debug, Serialize, Deserialize)]
pub struct ReplayFile {
    pub property: String,
    pub scenario: String,
    pub seed: u64,
    pub run: u64,
    pub profile: String,
    pub tier: String,
    pub cfg: Value,
    pub actions: Vec<Value>,
    pub violation: Violation,
    pub minimised_from: usize,
}

struct Hit {
    run: u64,
    seed: u64,
    v: Violation,
    count: u64,
}

fn jobs() -> usize {
    std::env::var("VERIF_JOBS")
        .ok()
        .and_then(|s| s.parse().ok())
        .unwrap_or_else(|| std::thread::available_parallelism().map(|n| n.get()).unwrap_or(8))
}

fn record_hit(hits: &mut BTreeMap<String, Hit>, run: u64, seed: u64, v: Violation) {
    match hits.get_mut(&v.invariant) {
        Some(h) => {
            h.count += 1;
            if run < h.run {
                h.run = run;
                h.seed = seed;
                h.v = v;
            }
        }
        None => {
            hits.insert(v.invariant.clone(), Hit { run, seed, v, count: 1 });
        }
    }
}

/// In-process batch over runs [lo, hi) on `jobs()` threads.
fn batch_threads(
    sc: &dyn DynScenario,
    verif_seed: u64,
    tier: Tier,
    lo: u64,
    hi: u64,
) -> (Agg, BTreeMap<String, Hit>, Vec<String>) {
    let next = AtomicU64::new(lo);
    let nthreads = jobs().max(1);
    let results: Mutex<Vec<(Agg, BTreeMap<String, Hit>, Vec<String>)>> = Mutex::new(vec![]);
    std::thread::scope(|s| {
        for _ in 0..nthreads {
            s.spawn(|| {
                let mut agg = Agg::default();
                let mut hits: BTreeMap<String, Hit> = BTreeMap::new();
                let mut herr: Vec<String> = vec![];
                loop {
                    let i = next.fetch_add(1, Ordering::Relaxed);
                    if i >= hi {
                        break;
                    }
                    let seed = rng::run_seed(verif_seed, sc.name(), i);
                    let mut st = RunStats::default();
                    let out = guarded(|| sc.run_one(seed, tier, &mut st));
                    agg.add_run(&st);
                    for v in st.extra.drain(..) {
                        record_hit(&mut hits, i, seed, v);
                    }
                    match out {
                        Outcome::Ok => {}
                        Outcome::Violation(v) => record_hit(&mut hits, i, seed, v),
                        Outcome::HarnessError(e) => {
                            if herr.len() < 5 {
                                herr.push(format!("run {i} seed {seed}: {e}"));
                            }
                        }
                    }
                }
                results.lock().unwrap().push((agg, hits, herr));
            });
        }
    });
    let mut agg = Agg::default();
    let mut hits: BTreeMap<String, Hit> = BTreeMap::new();
    let mut herr = vec![];
    for (a, h, e) in results.into_inner().unwrap() {
        agg.merge(&a);
        for (_, hit) in h {
            let c = hit.count;
            let cls = hit.v.invariant.clone();
            record_hit(&mut hits, hit.run, hit.seed, hit.v);
            if c > 1 {
                hits.get_mut(&cls).unwrap().count += c - 1;
            }
        }
        herr.extend(e);
    }
    herr.sort();
    herr.truncate(5);
    (agg, hits, herr)
}

// --- supervised children -----------------------------------------------------------------------

/// Child side: run [lo,hi) sequentially, reporting progress on stdout.
pub fn child_main(sc: &dyn DynScenario, verif_seed: u64, tier: Tier, lo: u64, hi: u64, resume_from: usize) {
    let mut out = std::io::stdout();
    let mut agg = Agg::default();
    for i in lo..hi {
        let seed = rng::run_seed(verif_seed, sc.name(), i);
        writeln!(out, "B {i}").ok();
        out.flush().ok();
        CHILD_RUN.store(i, Ordering::Relaxed);
        let mut st = RunStats::default();
        let o = if i == lo && resume_from > 0 {
            guarded(|| sc.run_one_from(seed, tier, resume_from, &mut st))
        } else {
            guarded(|| sc.run_one(seed, tier, &mut st))
        };
        agg.add_run(&st);
        st.extra.clear(); // already reported by RunStats::record
        match o {
            Outcome::Ok => {}
            Outcome::Violation(v) => {
                writeln!(out, "V {i} {}", serde_json::to_string(&v).unwrap()).ok();
            }
            Outcome::HarnessError(e) => {
                writeln!(out, "H {i} {}", serde_json::to_string(&e).unwrap()).ok();
            }
        }
        if sc.resumable() || (i - lo) % 64 == 63 {
            writeln!(out, "A {}", serde_json::to_string(&agg).unwrap()).ok();
            agg = Agg::default();
        }
    }
    writeln!(out, "A {}", serde_json::to_string(&agg).unwrap()).ok();
    writeln!(out, "Z").ok();
    out.flush().ok();
}

fn set_child_limits(cmd: &mut Command) {
    use std::os::unix::process::CommandExt;
    unsafe {
        cmd.pre_exec(|| {
            // address-space fence: 6 GiB per child
            let lim = libc::rlimit { rlim_cur: 6 << 30, rlim_max: 6 << 30 };
            libc::setrlimit(libc::RLIMIT_AS, &lim);
            // no core dumps
            let z = libc::rlimit { rlim_cur: 0, rlim_max: 0 };
            libc::setrlimit(libc::RLIMIT_CORE, &z);
            Ok(())
        });
    }
}

pub fn classify_death(status: &std::process::ExitStatus, stderr_tail: &str, timed_out: bool) -> Violation {
    use std::os::unix::process::ExitStatusExt;
    if timed_out {
        return Violation::new("abort:hang", "no progress for the hang budget; child killed");
    }
    if let Some(pos) = stderr_tail.rfind("VERIF-ALLOC-CAP size=") {
        let rest = &stderr_tail[pos + 21..];
        let n: String = rest.chars().take_while(|c| c.is_ascii_digit()).collect();
        let label = rest.split("label=").nth(1).map(|l| l.lines().next().unwrap_or("").trim().to_string()).unwrap_or_default();
        return Violation::new(format!("abort:alloc|{label}"), format!("single allocation request of {n} bytes refused (hard cap 1 GiB) during {label} -> process abort"));
    }
    if stderr_tail.contains("memory allocation of") {
        return Violation::new("abort:alloc", format!("allocation failure: {}", stderr_tail.lines().last().unwrap_or("")));
    }
    if stderr_tail.contains("stack overflow") {
        return Violation::new("abort:stack_overflow", "stack overflow");
    }
    if stderr_tail.contains("panic in a function that cannot unwind") || stderr_tail.contains("panicked") {
        return Violation::new("abort:double_panic", format!("abort after panic: {}", stderr_tail.lines().last().unwrap_or("")));
    }
    Violation::new(
        "abort:signal",
        format!("child died: signal {:?} code {:?}; stderr tail: {}", status.signal(), status.code(), stderr_tail.lines().last().unwrap_or("")),
    )
}

/// A step is declared hung when the child has burnt this much *CPU time* without reporting
/// progress. CPU time, not wall time: a loaded machine slows a child down without making it spin,
/// and a false "hang" would be an alarm the code did not earn. (The library is single-threaded
/// computation: a child that makes no progress is spinning.) The wall-clock limit is a backstop only.
const HANG_BUDGET_S: u64 = 60;
const HANG_WALL_BACKSTOP_S: u64 = 1800;

/// user+system CPU time of a process, in clock ticks (100 per second on Linux)
fn proc_cpu_ticks(pid: i32) -> Option<u64> {
    let s = std::fs::read_to_string(format!("/proc/{pid}/stat")).ok()?;
    // fields after the parenthesised command name
    let rest = &s[s.rfind(')')? + 2..];
    let f: Vec<&str> = rest.split_whitespace().collect();
    // rest[0] is field 3 (state); utime = field 14, stime = field 15
    Some(f.get(11)?.parse::<u64>().ok()? + f.get(12)?.parse::<u64>().ok()?)
}

/// hangs seen in this part; after a few the rest of the batch is abandoned (the violation is
/// recorded; waiting a full hang budget for thousands of runs would only delay the report)
static HANGS: AtomicU64 = AtomicU64::new(0);

/// Parent side of one child covering [lo,hi); restarts after deaths.
fn supervise_range(
    sc: &dyn DynScenario,
    verif_seed: u64,
    tier: Tier,
    mut lo: u64,
    hi: u64,
    agg: &mut Agg,
    hits: &mut BTreeMap<String, Hit>,
    herr: &mut Vec<String>,
) {
    let exe = std::env::current_exe().expect("current_exe");
    let mut resume_from: usize = 0;
    let mut deaths_in_run = 0u32;
    while lo < hi {
        if HANGS.load(Ordering::Relaxed) >= 2 {
            let note = "batch abandoned after repeated hangs: some runs were not executed".to_string();
            if !agg.notes.contains(&note) {
                agg.notes.push(note);
            }
            return;
        }
        let mut cmd = Command::new(&exe);
        cmd.arg("child")
            .arg(sc.name())
            .arg(tier.as_str())
            .arg(verif_seed.to_string())
            .arg(lo.to_string())
            .arg(hi.to_string())
            .arg(resume_from.to_string())
            .env("RUST_BACKTRACE", "0")
            .stdin(Stdio::null())
            .stdout(Stdio::piped())
            .stderr(Stdio::piped());
        set_child_limits(&mut cmd);
        let mut child = cmd.spawn().expect("spawn child");
        let stdout = child.stdout.take().unwrap();
        let mut stderr = child.stderr.take().unwrap();
        let errh = std::thread::spawn(move || {
            let mut s = Vec::new();
            use std::io::Read;
            let _ = stderr.read_to_end(&mut s);
            let s = String::from_utf8_lossy(&s).to_string();
            let n = s.len();
            if n <= 4000 {
                s
            } else {
                let mut a = 2000;
                while !s.is_char_boundary(a) {
                    a -= 1;
                }
                let mut b = n - 2000;
                while !s.is_char_boundary(b) {
                    b += 1;
                }
                format!("{}\n...\n{}", &s[..a], &s[b..])
            }
        });
        // watchdog: kill the child if no progress line for HANG_BUDGET_S
        let progress = std::sync::Arc::new(AtomicU64::new(0));
        let done = std::sync::Arc::new(std::sync::atomic::AtomicBool::new(false));
        let timed_out = std::sync::Arc::new(std::sync::atomic::AtomicBool::new(false));
        let pid = child.id() as i32;
        let wd = {
            let progress = progress.clone();
            let done = done.clone();
            let timed_out = timed_out.clone();
            std::thread::spawn(move || {
                let mut last = 0u64;
                let mut idle = 0u64;
                let mut cpu_at_progress = proc_cpu_ticks(pid).unwrap_or(0);
                while !done.load(Ordering::Relaxed) {
                    std::thread::sleep(std::time::Duration::from_millis(250));
                    let p = progress.load(Ordering::Relaxed);
                    let cpu = proc_cpu_ticks(pid).unwrap_or(cpu_at_progress);
                    if p != last {
                        last = p;
                        idle = 0;
                        cpu_at_progress = cpu;
                    } else {
                        idle += 1;
                        if cpu.saturating_sub(cpu_at_progress) > HANG_BUDGET_S * 100 || idle > HANG_WALL_BACKSTOP_S * 4 {
                            timed_out.store(true, Ordering::Relaxed);
                            unsafe {
                                libc::kill(pid, libc::SIGKILL);
                            }
                            break;
                        }
                    }
                }
            })
        };
        let mut in_progress: Option<u64> = None;
        let mut action: Option<usize> = None;
        let mut finished = false;
        for line in BufReader::new(stdout).lines() {
            let Ok(line) = line else { break };
            progress.fetch_add(1, Ordering::Relaxed);
            let (tag, rest) = line.split_at(1.min(line.len()));
            let rest = rest.trim_start();
            match tag {
                "B" => {
                    in_progress = rest.parse().ok();
                    action = None;
                }
                "P" => action = rest.parse().ok(),
                "V" => {
                    if let Some((r, js)) = rest.split_once(' ') {
                        if let (Ok(r), Ok(v)) = (r.parse::<u64>(), serde_json::from_str::<Violation>(js)) {
                            record_hit(hits, r, rng::run_seed(verif_seed, sc.name(), r), v);
                        }
                    }
                }
                "H" => {
                    if herr.len() < 5 {
                        herr.push(rest.to_string());
                    }
                }
                "A" => {
                    if let Ok(a) = serde_json::from_str::<Agg>(rest) {
                        agg.merge(&a);
                    }
                }
                "Z" => finished = true,
                _ => {}
            }
        }
        let status = child.wait().expect("wait child");
        done.store(true, Ordering::Relaxed);
        let _ = wd.join();
        let tail = errh.join().unwrap_or_default();
        if finished && status.success() {
            return;
        }
        // the child died in run `in_progress`
        let r = in_progress.unwrap_or(lo);
        let v = classify_death(&status, &tail, timed_out.load(Ordering::Relaxed));
        if v.invariant == "abort:hang" {
            HANGS.fetch_add(1, Ordering::Relaxed);
        }
        record_hit(hits, r, rng::run_seed(verif_seed, sc.name(), r), v);
        if r != lo {
            deaths_in_run = 0;
        }
        deaths_in_run += 1;
        match action {
            Some(k) if sc.resumable() && deaths_in_run < 40 => {
                // resume the same run after the action that killed the child
                lo = r;
                resume_from = k + 1;
            }
            _ => {
                agg.runs += 1; // the run that died
                lo = r + 1;
                resume_from = 0;
                deaths_in_run = 0;
            }
        }
    }
}

fn batch_supervised(
    sc: &dyn DynScenario,
    verif_seed: u64,
    tier: Tier,
    lo: u64,
    hi: u64,
) -> (Agg, BTreeMap<String, Hit>, Vec<String>) {
    let n = jobs().max(1) as u64;
    let total = hi - lo;
    // more slices than workers so that a slow slice does not dominate
    let slices = (n * 16).min(total.max(1));
    let next = AtomicU64::new(0);
    let results: Mutex<Vec<(Agg, BTreeMap<String, Hit>, Vec<String>)>> = Mutex::new(vec![]);
    std::thread::scope(|s| {
        for _ in 0..n {
            s.spawn(|| {
                let mut agg = Agg::default();
                let mut hits = BTreeMap::new();
                let mut herr = vec![];
                loop {
                    let k = next.fetch_add(1, Ordering::Relaxed);
                    if k >= slices {
                        break;
                    }
                    let a = lo + total * k / slices;
                    let b = lo + total * (k + 1) / slices;
                    supervise_range(sc, verif_seed, tier, a, b, &mut agg, &mut hits, &mut herr);
                }
                results.lock().unwrap().push((agg, hits, herr));
            });
        }
    });
    let mut agg = Agg::default();
    let mut hits: BTreeMap<String, Hit> = BTreeMap::new();
    let mut herr = vec![];
    for (a, h, e) in results.into_inner().unwrap() {
        agg.merge(&a);
        for (_, hit) in h {
            let c = hit.count;
            let cls = hit.v.invariant.clone();
            record_hit(&mut hits, hit.run, hit.seed, hit.v);
            if c > 1 {
                hits.get_mut(&cls).unwrap().count += c - 1;
            }
        }
        herr.extend(e);
    }
    herr.sort();
    herr.truncate(5);
    (agg, hits, herr)
}

// --- executing one script, possibly isolated -----------------------------------------------------

/// Execute a script and return the violation class it produces, if any.
/// For isolating scenarios this spawns `replay-inner` so that aborts are survivable.
pub fn exec_script_class(sc: &dyn DynScenario, script: &ScriptJson, scratch: &std::path::Path) -> Result<Vec<Violation>, String> {
    if !sc.isolate() && std::env::var("VERIF_INPROCESS").is_ok() {
        let mut st = RunStats::default();
        let o = guarded(|| sc.exec_json(script, &mut st));
        let mut all: Vec<Violation> = st.extra.drain(..).collect();
        return match o {
            Outcome::Ok => Ok(all),
            Outcome::Violation(v) => {
                all.push(v);
                Ok(all)
            }
            Outcome::HarnessError(e) => Err(e),
        };
    }
    // Isolated execution. When the child dies inside action k of a resumable scenario the run is
    // resumed after that action (same protocol as the batch supervisor), so that every violation of
    // the script is collected, not only those before the first abort.
    let mut all: Vec<Violation> = vec![];
    let mut from = 0usize;
    for _round in 0..40 {
        let path = scratch.join(format!("cand-{}-{:?}.json", std::process::id(), std::thread::current().id()));
        let body = serde_json::json!({"scenario": sc.name(), "cfg": script.cfg, "actions": script.actions, "from": from});
        std::fs::write(&path, serde_json::to_vec(&body).unwrap()).map_err(|e| e.to_string())?;
        let exe = std::env::current_exe().map_err(|e| e.to_string())?;
        let mut cmd = Command::new(exe);
        cmd.arg("replay-inner").arg(&path).env("RUST_BACKTRACE", "0").stdin(Stdio::null()).stdout(Stdio::piped()).stderr(Stdio::piped());
        set_child_limits(&mut cmd);
        let mut child = cmd.spawn().map_err(|e| e.to_string())?;
        let start = std::time::Instant::now();
        let mut timed_out = false;
        loop {
            match child.try_wait() {
                Ok(Some(_)) => break,
                Ok(None) => {
                    let cpu = proc_cpu_ticks(child.id() as i32).unwrap_or(0);
                    if cpu > HANG_BUDGET_S * 100 || start.elapsed().as_secs() > HANG_WALL_BACKSTOP_S {
                        timed_out = true;
                        let _ = child.kill();
                        break;
                    }
                    std::thread::sleep(std::time::Duration::from_millis(5));
                }
                Err(e) => return Err(e.to_string()),
            }
        }
        let out = child.wait_with_output().map_err(|e| e.to_string())?;
        let _ = std::fs::remove_file(&path);
        let so = String::from_utf8_lossy(&out.stdout);
        let se = String::from_utf8_lossy(&out.stderr);
        let mut done = false;
        let mut action: Option<usize> = None;
        for l in so.lines() {
            if let Some(js) = l.strip_prefix("V ") {
                // "V <run> <json>" (recorded while running) or "V <json>"
                let js = js.trim_start();
                let js = if js.starts_with('{') { js } else { js.split_once(' ').map(|x| x.1).unwrap_or("") };
                if let Ok(v) = serde_json::from_str::<Violation>(js) {
                    if !all.iter().any(|x| x.invariant == v.invariant) {
                        all.push(v);
                    }
                }
            }
            if let Some(e) = l.strip_prefix("H ") {
                return Err(e.to_string());
            }
            if let Some(k) = l.strip_prefix("P ") {
                action = k.trim().parse().ok();
            }
            if l == "DONE" {
                done = true;
            }
        }
        if done {
            return Ok(all);
        }
        let v = classify_death(&out.status, &se, timed_out);
        if !all.iter().any(|x| x.invariant == v.invariant) {
            all.push(v);
        }
        match action {
            Some(k) if sc.resumable() && k + 1 < script.actions.len() => from = k + 1,
            _ => return Ok(all),
        }
    }
    Ok(all)
}

pub fn replay_inner_main(sc: &dyn DynScenario, script: &ScriptJson, from: usize) {
    let mut st = RunStats::default();
    CHILD_RUN.store(0, Ordering::Relaxed);
    CHILD_ACTION_BASE.store(from as u64, Ordering::Relaxed);
    let part = ScriptJson { cfg: script.cfg.clone(), actions: script.actions[from.min(script.actions.len())..].to_vec() };
    let o = guarded(|| sc.exec_json(&part, &mut st));
    st.extra.clear(); // already printed by RunStats::record (child mode)
    match o {
        Outcome::Ok => {}
        Outcome::Violation(v) => println!("V {}", serde_json::to_string(&v).unwrap()),
        Outcome::HarnessError(e) => println!("H {e}"),
    }
    println!("DONE");
}

// --- minimisation --------------------------------------------------------------------------------

pub struct Minimiser<'a> {
    pub sc: &'a dyn DynScenario,
    pub class: String,
    pub budget: usize,
    pub scratch: std::path::PathBuf,
    pub tests: usize,
}

impl Minimiser<'_> {
    fn fails(&mut self, s: &ScriptJson) -> Option<Violation> {
        if self.tests >= self.budget {
            return None;
        }
        self.tests += 1;
        match exec_script_class(self.sc, s, &self.scratch) {
            Ok(vs) => vs.into_iter().find(|v| v.invariant == self.class),
            _ => None,
        }
    }

    pub fn minimise(&mut self, mut cur: ScriptJson, mut last: Violation) -> (ScriptJson, Violation) {
        // 1. ddmin over the action list
        let mut n = 2usize;
        while cur.actions.len() >= 2 && self.tests < self.budget {
            let len = cur.actions.len();
            let chunk = len.div_ceil(n);
            let mut reduced = false;
            // try removing each chunk (complement test)
            let mut start = 0;
            while start < len {
                let end = (start + chunk).min(len);
                let mut cand = cur.clone();
                cand.actions.drain(start..end);
                if let Some(v) = self.fails(&cand) {
                    cur = cand;
                    last = v;
                    n = (n - 1).max(2);
                    reduced = true;
                    break;
                }
                start = end;
            }
            if !reduced {
                if n >= len {
                    break;
                }
                n = (n * 2).min(len);
            }
        }
        // 1b. single-action removal sweep (cheap when short)
        let mut i = 0;
        while i < cur.actions.len() && self.tests < self.budget {
            let mut cand = cur.clone();
            cand.actions.remove(i);
            if let Some(v) = self.fails(&cand) {
                cur = cand;
                last = v;
            } else {
                i += 1;
            }
        }
        // 2. configuration shrinking (greedy, repeated)
        let mut progress = true;
        while progress && self.tests < self.budget {
            progress = false;
            for c in self.sc.shrink_cfg_json(&cur.cfg) {
                let mut cand = cur.clone();
                cand.cfg = c;
                if let Some(v) = self.fails(&cand) {
                    cur = cand;
                    last = v;
                    progress = true;
                    break;
                }
            }
        }
        // 3. operand shrinking per action
        let mut i = 0;
        while i < cur.actions.len() && self.tests < self.budget {
            let mut improved = true;
            let mut guard = 0;
            while improved && guard < 16 && self.tests < self.budget {
                improved = false;
                guard += 1;
                for a in self.sc.shrink_action_json(&cur.actions[i]) {
                    let mut cand = cur.clone();
                    cand.actions[i] = a;
                    if let Some(v) = self.fails(&cand) {
                        cur = cand;
                        last = v;
                        improved = true;
                        break;
                    }
                }
            }
            i += 1;
        }
        (cur, last)
    }
}

// --- one part: (scenario, this profile) ----------------------------------------------------------

pub fn verif_seed() -> u64 {
    std::env::var("VERIF_SEED").ok().and_then(|s| s.parse::<u64>().ok()).unwrap_or(20260926)
}

pub fn run_part(property: &str, sc: &dyn DynScenario, tier: Tier, replay_dir: &std::path::Path, runs_override: Option<u64>) -> PartResult {
    let t0 = std::time::Instant::now();
    let seed = verif_seed();
    let n = runs_override.unwrap_or_else(|| sc.runs(tier));
    // Every batch runs in supervised child processes: a change to the library that makes a valid
    // operation loop forever, overflow the stack or abort must be reported (as abort:hang, ...) and
    // must not take the check down with it. VERIF_INPROCESS=1 selects the thread runner (debugging).
    let (agg, hits, herr) = if sc.isolate() || std::env::var("VERIF_INPROCESS").is_err() {
        batch_supervised(sc, seed, tier, 0, n)
    } else {
        batch_threads(sc, seed, tier, 0, n)
    };
    std::fs::create_dir_all(replay_dir).ok();
    let mut found = vec![];
    let mut herr = herr;
    let max_min = 24usize;
    for (k, (class, hit)) in hits.into_iter().enumerate() {
        let script = sc.gen_script(hit.seed, tier);
        let from = script.actions.len();
        let (script, v, to) = if k < max_min {
            let mut m = Minimiser {
                sc,
                class: class.clone(),
                budget: if class == "abort:hang" { 0 } else if sc.isolate() { 400 } else { 1200 },
                scratch: replay_dir.to_path_buf(),
                tests: 0,
            };
            // make sure the regenerated script fails the same way before minimising
            let first = if class == "abort:hang" { Ok(vec![hit.v.clone()]) } else { exec_script_class(sc, &script, replay_dir) };
            match first.map(|vs| (vs.iter().map(|v| v.invariant.clone()).collect::<Vec<_>>(), vs.into_iter().find(|v| v.invariant == class))) {
                Ok((_, Some(v0))) => {
                    let (s, v) = m.minimise(script, v0);
                    let to = s.actions.len();
                    (s, v, to)
                }
                other => {
                    herr.push(format!(
                        "non-reproducing violation class {class} at run {} (regenerated script gave {:?})",
                        hit.run,
                        other.map(|o| o.0)
                    ));
                    continue;
                }
            }
        } else {
            let to = script.actions.len();
            (script, hit.v.clone(), to)
        };
        let fname = format!("{}-{}-{}-{}.json", sc.name(), profile_name(), seed, hit.run);
        let path = replay_dir.join(&fname);
        let rf = ReplayFile {
            property: property.to_string(),
            scenario: sc.name().to_string(),
            seed,
            run: hit.run,
            profile: profile_name().to_string(),
            tier: tier.as_str().to_string(),
            cfg: script.cfg,
            actions: script.actions,
            violation: v.clone(),
            minimised_from: from,
        };
        std::fs::write(&path, serde_json::to_vec_pretty(&rf).unwrap()).ok();
        found.push(Found {
            class,
            detail: v.detail,
            run: hit.run,
            seed: hit.seed,
            count: hit.count,
            replay: Some(path.to_string_lossy().to_string()),
            minimised_from: from,
            minimised_to: to,
        });
    }
    // samples: the first three scripts of the batch, truncated
    let mut samples = vec![];
    for i in 0..3u64.min(n) {
        let s = sc.gen_script(rng::run_seed(seed, sc.name(), i), tier);
        let total = s.actions.len();
        let acts: Vec<Value> = s.actions.into_iter().take(12).collect();
        samples.push(serde_json::json!({"scenario": sc.name(), "run": i, "cfg": s.cfg, "actions_total": total, "first_actions": acts}));
    }
    PartResult {
        property: property.to_string(),
        scenario: sc.name().to_string(),
        profile: profile_name().to_string(),
        tier: tier.as_str().to_string(),
        seed,
        agg,
        found,
        harness_errors: herr,
        samples,
        wall_s: t0.elapsed().as_secs_f64(),
    }
}
