//! Writer node for the serialization scenarios: builds real sketches of every family / mode from
//! a compact spec and emits their images. Everything here is a pure function of the spec.

use crate::rng::Rng;
use datasketches::bloom::BloomFilterBuilder;
use datasketches::common::ResizeFactor;
use datasketches::countmin::CountMinSketch;
use datasketches::cpc::{CpcSketch, CpcUnion};
use datasketches::frequencies::FrequentItemsSketch;
use datasketches::hll::{HllSketch, HllType, HllUnion};
use datasketches::tdigest::TDigestMut;
use datasketches::theta::ThetaSketch;
use serde::{Deserialize, Serialize};

pub const FAMILIES: &[&str] = &[
    "hll", "hll_union", "theta", "theta_v4", "cpc", "cpc_union", "bloom", "cm_u8", "cm_u16", "cm_u32", "cm_u64", "cm_i8",
    "cm_i16", "cm_i32", "cm_i64", "fi_i64", "fi_u64", "fi_str", "td",
    // ForeignWriter variants (independent spec encoder): layouts this library never writes itself
    "hll_foreign", "theta_foreign", "td_foreign", "bloom_foreign", "fi_foreign",
];

/// The reader family an image of this corpus family is addressed to.
pub fn reader_family(fam: &str) -> &str {
    match fam {
        "hll_foreign" => "hll",
        "theta_foreign" => "theta",
        "td_foreign" => "td",
        "bloom_foreign" => "bloom",
        "fi_foreign" => "fi_i64",
        f => f,
    }
}

#[derive(Clone, Debug, Serialize, Deserialize)]
pub struct Spec {
    pub fam: String,
    /// primary size parameter (lg_k, bits, num_hashes, lg_max_map, k)
    pub a: u64,
    /// secondary parameter (type, num_hashes, buckets, ...)
    pub b: u64,
    /// number of items offered
    pub n: u64,
    pub seed: u64,
    /// variant bits (ordered, via coupons, ...)
    pub var: u64,
}

pub fn hll_type(b: u64) -> HllType {
    match b % 3 {
        0 => HllType::Hll4,
        1 => HllType::Hll6,
        _ => HllType::Hll8,
    }
}

pub fn gen_spec(rng: &mut Rng, fam: &str) -> Spec {
    let seed = rng.next_u64();
    let var = rng.next_u64();
    let (a, b, n) = match fam {
        "hll" | "hll_union" => {
            let lg_k = match rng.below(10) {
                0 => 4,
                1 => 14,
                _ => rng.range(4, 12),
            };
            let k = 1u64 << lg_k;
            // land in every mode, often right at a promotion threshold
            let n = match rng.below(8) {
                0 => 0,
                1 => rng.range(1, 7),
                2 => 8,
                3 => rng.range(9, (k / 8).max(10)),
                4 => (3 * k / 32).max(9) + rng.below(3),
                _ => rng.range(k / 8, 4 * k),
            };
            (lg_k, rng.below(3), n)
        }
        "hll_foreign" => {
            let lg_k = rng.range(4, 11);
            let k = 1u64 << lg_k;
            (lg_k, rng.below(3), match rng.below(4) { 0 => rng.range(0, 7), 1 => rng.range(8, (3 * k / 32).max(9)), _ => rng.range(k / 4, 3 * k) })
        }
        "theta_foreign" => (rng.range(1, 4), 0, match rng.below(4) { 0 => 0, 1 => 1, _ => rng.range(2, 400) }),
        "td_foreign" => (*rng.pick(&[10u64, 50, 200]), rng.below(4), match rng.below(4) { 0 => 0, 1 => 1, _ => rng.range(2, 60) }),
        "bloom_foreign" => (rng.range(1, 3000), rng.range(1, 8), rng.range(0, 100)),
        "fi_foreign" => (rng.range(3, 8), rng.below(8), rng.range(1, 6)),
        "theta" | "theta_v4" => {
            let lg_k = rng.range(5, 9);
            let k = 1u64 << lg_k;
            let n = match rng.below(6) {
                0 => 0,
                1 => 1,
                2 => rng.range(2, k),
                _ => rng.range(k, 8 * k),
            };
            (lg_k, rng.below(4), n)
        }
        "cpc" | "cpc_union" => {
            let lg_k = match rng.below(8) {
                0 => 4,
                _ => rng.range(4, 11),
            };
            let k = 1u64 << lg_k;
            // flavors: sparse < 3k/32, hybrid < k/2, pinned < 27k/8, sliding beyond
            let n = match rng.below(7) {
                0 => 0,
                1 => rng.range(1, (3 * k / 32).max(2)),
                2 => rng.range(3 * k / 32, k / 2),
                3 => rng.range(k / 2, 27 * k / 8),
                4 => 3 * k / 32 + rng.below(2),
                _ => rng.range(27 * k / 8, 12 * k),
            };
            (lg_k, 0, n)
        }
        "bloom" => (rng.range(1, 4096), rng.range(1, 8), match rng.below(4) { 0 => 0, _ => rng.range(1, 300) }),
        f if f.starts_with("cm_") => (rng.range(1, 4), rng.range(3, 48), match rng.below(4) { 0 => 0, _ => rng.range(1, 100) }),
        f if f.starts_with("fi_") => (rng.range(3, 6), rng.below(3), match rng.below(5) { 0 => 0, _ => rng.range(1, 400) }),
        "td" => (match rng.below(4) { 0 => 10, _ => rng.range(10, 100) }, rng.below(4), match rng.below(6) { 0 => 0, 1 => 1, _ => rng.range(2, 3000) }),
        _ => (0, 0, 0),
    };
    Spec { fam: fam.to_string(), a, b, n, seed, var }
}

pub fn build_hll(s: &Spec, n: u64) -> HllSketch {
    let mut sk = HllSketch::new(s.a as u8, hll_type(s.b));
    let mut r = Rng::new(s.seed);
    if s.var & 1 == 0 {
        for _ in 0..n {
            sk.update(r.next_u64());
        }
    } else {
        // crafted coupons: wider value range than hashing reaches
        for _ in 0..n {
            let slot = r.next_u32() & 0x3ff_ffff;
            let val = 1 + r.geometric(40).min(60) + if r.chance(1, 50) { 20 } else { 0 };
            sk.verif_update_with_coupon((val.min(63) << 26) | slot);
        }
    }
    sk
}

pub fn build_cpc(s: &Spec, n: u64) -> CpcSketch {
    let mut sk = CpcSketch::new(s.a as u8);
    let mut r = Rng::new(s.seed);
    for _ in 0..n {
        sk.update(r.next_u64());
    }
    sk
}

pub fn build_theta(s: &Spec, n: u64) -> ThetaSketch {
    let rf = match s.b % 4 {
        0 => ResizeFactor::X1,
        1 => ResizeFactor::X2,
        2 => ResizeFactor::X4,
        _ => ResizeFactor::X8,
    };
    let mut b = ThetaSketch::builder().lg_k(s.a as u8).resize_factor(rf);
    if s.var & 4 != 0 {
        b = b.sampling_probability(0.5);
    }
    let mut sk = b.build();
    let mut r = Rng::new(s.seed);
    for _ in 0..n {
        sk.update(r.next_u64());
    }
    if s.var & 8 != 0 {
        sk.trim();
    }
    sk
}

fn weight_for(r: &mut Rng, max: u64) -> u64 {
    1 + r.below(max.max(1))
}

macro_rules! build_cm {
    ($t:ty, $s:expr, $n:expr, $maxw:expr) => {{
        let mut sk = CountMinSketch::<$t>::new($s.a as u8, $s.b as u32);
        let mut r = Rng::new($s.seed);
        let mut total: u64 = 0;
        for _ in 0..$n {
            let w = weight_for(&mut r, 3);
            if total + w > $maxw {
                break;
            }
            total += w;
            sk.update_with_weight(r.below(50), w as $t);
        }
        sk.serialize()
    }};
}

pub fn fi_item_str(i: u64) -> String {
    match i % 7 {
        0 => String::new(),
        1 => format!("ключ-{i}"),
        2 => format!("k{i}\u{1F600}"),
        _ => format!("item{i}"),
    }
}

/// Image of generation `generation` (0 = current, 1 = previous: built from half the items).
pub fn build_image(s: &Spec, generation: u8) -> Vec<u8> {
    let n = if generation == 0 { s.n } else { s.n / 2 };
    match s.fam.as_str() {
        "hll" => build_hll(s, n).serialize(),
        "hll_union" => {
            let mut u = HllUnion::new((s.a as u8).clamp(4, 21));
            let a = build_hll(s, n);
            u.update(&a);
            let mut s2 = s.clone();
            s2.seed ^= 0x55;
            s2.a = (s.a + s.var % 3).clamp(4, 14);
            let b = build_hll(&s2, n / 2);
            u.update(&b);
            u.to_sketch(hll_type(s.var >> 8)).serialize()
        }
        "theta" => build_theta(s, n).compact(s.var & 2 != 0).serialize(),
        "theta_v4" => build_theta(s, n).compact(true).serialize_compressed(),
        "cpc" => build_cpc(s, n).serialize(),
        "cpc_union" => {
            let mut u = CpcUnion::new(s.a as u8);
            u.update(&build_cpc(s, n));
            let mut s2 = s.clone();
            s2.seed ^= 0x77;
            s2.a = (s.a + s.var % 2).clamp(4, 12);
            u.update(&build_cpc(&s2, n / 3));
            u.to_sketch().serialize()
        }
        "bloom" => {
            let mut f = BloomFilterBuilder::with_size(s.a.max(1), s.b.max(1) as u16).seed(s.seed).build();
            let mut r = Rng::new(s.seed);
            for _ in 0..n {
                f.insert(r.next_u64());
            }
            f.serialize()
        }
        "cm_u8" => build_cm!(u8, s, n, 200u64),
        "cm_u16" => build_cm!(u16, s, n, 60_000u64),
        "cm_u32" => build_cm!(u32, s, n, 1u64 << 31),
        "cm_u64" => build_cm!(u64, s, n, 1u64 << 62),
        "cm_i8" => build_cm!(i8, s, n, 100u64),
        "cm_i16" => build_cm!(i16, s, n, 30_000u64),
        "cm_i32" => build_cm!(i32, s, n, 1u64 << 30),
        "cm_i64" => build_cm!(i64, s, n, 1u64 << 61),
        "fi_i64" => {
            let mut sk = FrequentItemsSketch::<i64>::new(1usize << s.a);
            let mut r = Rng::new(s.seed);
            for _ in 0..n {
                let it = fi_domain(&mut r, s.b);
                sk.update_with_count(it as i64 - 20, weight_for(&mut r, 5));
            }
            sk.serialize()
        }
        "fi_u64" => {
            let mut sk = FrequentItemsSketch::<u64>::new(1usize << s.a);
            let mut r = Rng::new(s.seed);
            for _ in 0..n {
                let it = fi_domain(&mut r, s.b);
                sk.update_with_count(it, weight_for(&mut r, 5));
            }
            sk.serialize()
        }
        "fi_str" => {
            let mut sk = FrequentItemsSketch::<String>::new(1usize << s.a);
            let mut r = Rng::new(s.seed);
            for _ in 0..n {
                let it = fi_domain(&mut r, s.b);
                sk.update_with_count(fi_item_str(it), weight_for(&mut r, 5));
            }
            sk.serialize()
        }
        "hll_foreign" => {
            use crate::speccodec::hll as h;
            let lg_k = (s.a as u8).clamp(4, 21);
            let mut r = Rng::new(s.seed);
            // geometric values as hashing gives them, one coupon in sixteen far above the rest (Hll4 exceptions)
            let coupons: std::collections::BTreeSet<u32> = (0..n)
                .map(|_| {
                    let mut v = 1 + r.geometric(40).min(60);
                    if r.chance(1, 16) {
                        v = (v + 15 + r.below(30) as u32).min(63);
                    }
                    (v << 26) | (r.next_u32() & 0x3ff_ffff)
                })
                .collect();
            let list: Vec<u32> = coupons.iter().copied().collect();
            let mode = if list.len() < 8 { 0 } else if lg_k >= 8 && 4 * list.len() <= 3 * (1usize << (lg_k - 3)) { 1 } else { 2 };
            let regs = crate::model::hll::fold_coupons(coupons.iter(), lg_k);
            let layout = if s.var & 1 == 0 { h::Layout::Compact } else { h::Layout::Updatable };
            if mode == 2 && regs.iter().all(|&v| v == 0) {
                return h::encode(lg_k, (s.b % 3) as u8, 0, &[], &regs, false, 0.0, layout);
            }
            let mut img = h::encode(lg_k, (s.b % 3) as u8, mode, &list, &regs, s.var & 2 != 0, list.len() as f64, layout);
            // "Self-consistent lies": an Hll4 compact array image whose aux list is wrong while the
            // derived header fields (kxq0/kxq1, numAtCurMin, auxCount) are recomputed to agree with
            // the wrong reading - the kind of image no byte or bit campaign reaches, because three
            // fields have to move together. A reader must reject it, or return a sketch that works.
            let lie = (s.var >> 2) % 8;
            if mode == 2 && s.b % 3 == 0 && layout == h::Layout::Compact && (1..=5).contains(&lie) {
                let k = 1usize << lg_k;
                let cur_min = *regs.iter().min().unwrap();
                let aux: Vec<(usize, u8)> = regs.iter().enumerate().filter(|(_, v)| **v - cur_min >= 15).map(|(i, v)| (i, *v)).collect();
                let aux_at = 40 + k / 2;
                if !aux.is_empty() && img.len() >= aux_at + 4 * aux.len() {
                    let pick = (s.var >> 5) as usize % aux.len();
                    let (slot, val) = aux[pick];
                    let mut read = regs.clone(); // the registers as the lying image wants them read
                    let at = aux_at + 4 * pick;
                    match lie {
                        1 => {
                            // the entry is the aux map's empty marker; the slot reads as 0
                            img[at..at + 4].copy_from_slice(&0u32.to_le_bytes());
                            read[slot] = 0;
                        }
                        2 => {
                            // as 1, the slot read as cur_min (and counted there)
                            img[at..at + 4].copy_from_slice(&0u32.to_le_bytes());
                            read[slot] = cur_min;
                            let n = u32::from_le_bytes(img[32..36].try_into().unwrap());
                            img[32..36].copy_from_slice(&(n + 1).to_le_bytes());
                        }
                        3 => {
                            // the entry names a slot whose nibble is not the exception marker
                            let other = (0..k).find(|i| regs[*i] - cur_min < 15).unwrap_or(slot);
                            img[at..at + 4].copy_from_slice(&(((val as u32) << 26) | other as u32).to_le_bytes());
                            read[slot] = cur_min;
                        }
                        4 => {
                            // an exception value that is not an exception
                            let v = cur_min + 3;
                            img[at..at + 4].copy_from_slice(&(((v as u32) << 26) | slot as u32).to_le_bytes());
                            read[slot] = v;
                        }
                        _ => {
                            // the entry twice, auxCount raised with it
                            let e = img[at..at + 4].to_vec();
                            img.extend_from_slice(&e);
                            let n = u32::from_le_bytes(img[36..40].try_into().unwrap());
                            img[36..40].copy_from_slice(&(n + 1).to_le_bytes());
                        }
                    }
                    let (k0, k1) = h::kxq(&read);
                    img[16..24].copy_from_slice(&k0.to_le_bytes());
                    img[24..32].copy_from_slice(&k1.to_le_bytes());
                }
            }
            img
        }
        "fi_foreign" => {
            // Frequent Items images from the spec encoder whose three 64-bit quantities (stream weight,
            // offset, counters) are extreme or disagree in ways that keep every single-field check happy
            use crate::speccodec::simple::{FiItem, fi_encode};
            let lg_max = (s.a as u8).clamp(3, 10);
            let m = (n as u64).clamp(1, 6);
            let mut counts: Vec<u64> = (0..m).map(|i| 1 + (s.seed >> (8 * i)) % 9).collect();
            let sum: u64 = counts.iter().sum();
            let (weight, offset) = match s.b % 8 {
                0 => (sum + 40, 40),                                   // honest
                1 => (u64::MAX, u64::MAX - 2),                         // counter + offset passes 2^64
                2 => {
                    counts[0] = (1 << 63) + 50;
                    ((1 << 63) + 100 + sum, 1 << 63)
                }
                3 => (sum, sum + 1),                                   // offset above the stream weight
                4 => (sum - 1, 0),                                     // counters above the stream weight
                5 => {
                    counts[0] = 0;                                     // a tracked item with a zero counter
                    (sum + 5, 5)
                }
                6 => (u64::MAX, 0),                                    // valid: almost everything purged away
                _ => (u64::MAX - 1, u64::MAX - 1 - sum),               // offset + counters == weight exactly, at the top of the range
            };
            let entries: Vec<(FiItem, u64)> = counts.iter().enumerate().map(|(i, c)| (FiItem::Long((i as u64 * 7919).wrapping_sub(1000)), *c)).collect();
            fi_encode(lg_max, 3, weight, offset, &entries, false)
        }
        "theta_foreign" => {
            use crate::speccodec::theta as t;
            let ver = (s.a as u8).clamp(1, 4);
            let mut r = Rng::new(s.seed);
            let theta = if s.var & 1 == 0 { t::MAX_THETA } else { t::MAX_THETA >> (1 + s.var % 5) };
            let mut set: std::collections::BTreeSet<u64> = (0..n).map(|_| 1 + r.below(theta - 1)).collect();
            if ver == 4 && set.len() < 2 {
                set.insert(theta / 3 + 1);
                set.insert(theta / 2 + 1);
            }
            let list: Vec<u64> = set.into_iter().collect();
            let empty = list.is_empty() && theta == t::MAX_THETA;
            t::encode(ver, &list, theta, empty, true, crate::refhash::seed_hash(9001), s.var & 4 != 0, s.var & 8 != 0)
        }
        "td_foreign" => {
            use crate::speccodec::td as t;
            let mut r = Rng::new(s.seed);
            let form = match s.b % 4 { 0 => t::Form::NativeF64, 1 => t::Form::NativeF32, 2 => t::Form::CompatDouble, _ => t::Form::CompatFloat };
            let mut cs: Vec<(f64, u64)> = (0..n).map(|i| ((i as f64 * 1.5 + r.f64()) as f32 as f64, 1 + r.below(500))).collect();
            cs.sort_by(|a, b| a.0.partial_cmp(&b.0).unwrap());
            let (mn, mx) = (cs.first().map(|c| c.0 - 1.0).unwrap_or(0.0), cs.last().map(|c| c.0 + 1.0).unwrap_or(0.0));
            let (mn, mx) = if cs.len() == 1 && cs[0].1 == 1 { (cs[0].0, cs[0].0) } else { (mn, mx) };
            if cs.len() == 1 {
                cs[0].1 = cs[0].1.max(if matches!(form, t::Form::NativeF64 | t::Form::NativeF32) { 2 } else { 1 });
            }
            let buf: Vec<f64> = if matches!(form, t::Form::NativeF64 | t::Form::NativeF32) && !cs.is_empty() { (0..s.var % 4).map(|i| (cs[0].0 + i as f64) as f32 as f64).collect() } else { vec![] };
            t::encode((s.a as u16).max(10), mn, mx, &cs, &buf, s.var & 16 != 0, form)
        }
        "bloom_foreign" => {
            let mut m = crate::scen::c09::BloomModel::new(s.a.max(1), (s.b as u16).max(1), s.seed);
            let mut r = Rng::new(s.seed);
            for _ in 0..n {
                m.insert(r.next_u64());
            }
            crate::scen::c09::encode_image(&m, true)
        }
        "td" => {
            let mut d = TDigestMut::new(s.a as u16);
            let mut r = Rng::new(s.seed);
            for i in 0..n {
                let v = match s.b {
                    0 => r.f64(),
                    1 => i as f64,
                    2 => (r.below(5)) as f64,
                    _ => (r.f64() - 0.5) * 1e12,
                };
                d.update(v);
            }
            d.serialize()
        }
        _ => vec![],
    }
}

fn fi_domain(r: &mut Rng, skew: u64) -> u64 {
    match skew {
        0 => r.below(200),
        1 => {
            // zipf-ish
            let z = r.geometric(7) as u64;
            r.below(1 << z.min(7))
        }
        _ => r.next_u64() % 1000,
    }
}
