//! Chunking seam: an item whose `Hash` impl hands its bytes to the hasher in caller-chosen pieces.

use std::hash::{Hash, Hasher};

/// `cuts` are positions in 0..=data.len(), non-decreasing; repeated cuts give zero-length writes.
#[derive(Clone, Copy, Debug)]
pub struct Chunks<'a> {
    pub data: &'a [u8],
    pub cuts: &'a [usize],
}

impl Hash for Chunks<'_> {
    fn hash<H: Hasher>(&self, state: &mut H) {
        // Every other chunking (odd number of cuts) hands pieces of 1, 2, 4, 8 and 16 bytes to the
        // typed `Hasher` methods instead of `write`: on this little-endian target they must feed
        // the very same bytes, also when a hasher overrides one of them with a fast path.
        let typed = self.cuts.len() % 2 == 1;
        let mut prev = 0usize;
        for &c in self.cuts {
            let c = c.min(self.data.len()).max(prev);
            write_piece(state, &self.data[prev..c], typed);
            prev = c;
        }
        write_piece(state, &self.data[prev..], typed);
    }
}

fn write_piece<H: Hasher>(state: &mut H, p: &[u8], typed: bool) {
    if !typed {
        return state.write(p);
    }
    let signed = p.first().is_some_and(|b| b & 1 == 1);
    match (p.len(), signed) {
        (1, false) => state.write_u8(p[0]),
        (1, true) => state.write_i8(p[0] as i8),
        (2, false) => state.write_u16(u16::from_le_bytes(p.try_into().unwrap())),
        (2, true) => state.write_i16(i16::from_le_bytes(p.try_into().unwrap())),
        (4, false) => state.write_u32(u32::from_le_bytes(p.try_into().unwrap())),
        (4, true) => state.write_i32(i32::from_le_bytes(p.try_into().unwrap())),
        (8, false) if p[1] & 1 == 1 => state.write_usize(usize::from_le_bytes(p.try_into().unwrap())),
        (8, false) => state.write_u64(u64::from_le_bytes(p.try_into().unwrap())),
        (8, true) if p[1] & 1 == 1 => state.write_isize(isize::from_le_bytes(p.try_into().unwrap())),
        (8, true) => state.write_i64(i64::from_le_bytes(p.try_into().unwrap())),
        (16, false) => state.write_u128(u128::from_le_bytes(p.try_into().unwrap())),
        (16, true) => state.write_i128(i128::from_le_bytes(p.try_into().unwrap())),
        _ => state.write(p),
    }
}

pub fn pieces<'a>(data: &'a [u8], cuts: &[usize]) -> Vec<&'a [u8]> {
    let mut v = Vec::with_capacity(cuts.len() + 1);
    let mut prev = 0usize;
    for &c in cuts {
        let c = c.min(data.len()).max(prev);
        v.push(&data[prev..c]);
        prev = c;
    }
    v.push(&data[prev..]);
    v
}

/// Bytes std's `Hash` impls feed to a `Hasher` (little-endian target), for the item kinds used.
pub fn std_bytes_u64(v: u64) -> Vec<u8> {
    v.to_le_bytes().to_vec()
}
pub fn std_bytes_i64(v: i64) -> Vec<u8> {
    v.to_le_bytes().to_vec()
}
pub fn std_bytes_str(s: &str) -> Vec<u8> {
    let mut b = s.as_bytes().to_vec();
    b.push(0xff);
    b
}

pub fn hex(b: &[u8]) -> String {
    let mut s = String::with_capacity(b.len() * 2);
    for x in b {
        s.push_str(&format!("{x:02x}"));
    }
    s
}
pub fn unhex(s: &str) -> Vec<u8> {
    let b = s.as_bytes();
    let mut v = Vec::with_capacity(b.len() / 2);
    let mut i = 0;
    while i + 1 < b.len() {
        let h = (b[i] as char).to_digit(16).unwrap_or(0) as u8;
        let l = (b[i + 1] as char).to_digit(16).unwrap_or(0) as u8;
        v.push(h << 4 | l);
        i += 2;
    }
    v
}
