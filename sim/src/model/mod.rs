//! Reference models (oracles): same interface as the node's sketch, trivial inside, no code
//! shared with the library.
pub mod hll;
pub mod cpc;
