//! Textbook HLL model: one coupon per distinct item; register[slot] = max value.

use std::collections::BTreeSet;

pub fn coupon_slot(c: u32) -> u32 {
    c & 0x3ff_ffff
}
pub fn coupon_value(c: u32) -> u8 {
    (c >> 26) as u8
}

#[derive(Clone, Debug, Default)]
pub struct HllModel {
    pub lg_k: u8,
    pub coupons: BTreeSet<u32>,
}

pub fn fold_coupons<'a>(coupons: impl Iterator<Item = &'a u32>, lg_k: u8) -> Vec<u8> {
    let k = 1usize << lg_k;
    let mut r = vec![0u8; k];
    for &c in coupons {
        let s = (coupon_slot(c) as usize) & (k - 1);
        let v = coupon_value(c);
        if v > r[s] {
            r[s] = v;
        }
    }
    r
}

pub fn fold_regs(regs: &[u8], to_lg_k: u8) -> Vec<u8> {
    let k = 1usize << to_lg_k;
    let mut r = vec![0u8; k];
    for (s, &v) in regs.iter().enumerate() {
        let d = s & (k - 1);
        if v > r[d] {
            r[d] = v;
        }
    }
    r
}

impl HllModel {
    pub fn new(lg_k: u8) -> Self {
        HllModel { lg_k, coupons: BTreeSet::new() }
    }
    pub fn offer(&mut self, c: u32) {
        self.coupons.insert(c);
    }
    pub fn registers(&self) -> Vec<u8> {
        fold_coupons(self.coupons.iter(), self.lg_k)
    }
    /// Mode the documented promotion rule implies for this many distinct coupons:
    /// list below 8; then (lg_k < 8) array, else set until more than 3/4 of 2^(lg_k-3) coupons.
    pub fn expected_mode(&self) -> u8 {
        let c = self.coupons.len();
        if c < 8 {
            0
        } else if self.lg_k < 8 {
            2
        } else if 4 * c > 3 * (1usize << (self.lg_k - 3)) {
            2
        } else {
            1
        }
    }
}

/// Exact kxq sums (they are exactly representable: see DESIGN.md C02).
pub fn kxq_sum(regs: &[u8]) -> f64 {
    let mut a = 0.0f64;
    let mut b = 0.0f64;
    for &v in regs {
        let t = f64::from_bits(((1023 - v as u64) & 0x7ff) << 52);
        if v < 32 { a += t } else { b += t }
    }
    a + b
}
