//! CPC model: the k x 64 bit matrix of distinct (row, column) pairs, and the documented
//! functions of the coupon count (flavor, window offset), computed in wide integers.

#[derive(Clone, Debug)]
pub struct CpcModel {
    pub lg_k: u8,
    pub m: Vec<u64>,
    pub count: u64,
}

#[derive(Clone, Copy, Debug, PartialEq, Eq, PartialOrd, Ord)]
pub enum Flavor {
    Empty,
    Sparse,
    Hybrid,
    Pinned,
    Sliding,
}

pub fn flavor(lg_k: u8, c: u64) -> Flavor {
    let k = 1u128 << lg_k;
    let c = c as u128;
    if c == 0 {
        Flavor::Empty
    } else if 32 * c < 3 * k {
        Flavor::Sparse
    } else if 2 * c < k {
        Flavor::Hybrid
    } else if 8 * c < 27 * k {
        Flavor::Pinned
    } else {
        Flavor::Sliding
    }
}

/// offset = max(0, floor((8C - 19K) / 8K))
pub fn window_offset(lg_k: u8, c: u64) -> u8 {
    let k = 1i128 << lg_k;
    let t = 8 * c as i128 - 19 * k;
    if t < 0 { 0 } else { (t / (8 * k)) as u8 }
}

impl CpcModel {
    pub fn new(lg_k: u8) -> Self {
        CpcModel { lg_k, m: vec![0u64; 1usize << lg_k], count: 0 }
    }
    pub fn offer(&mut self, row_col: u32) -> bool {
        let row = (row_col >> 6) as usize & (self.m.len() - 1);
        let col = row_col & 63;
        let bit = 1u64 << col;
        if self.m[row] & bit == 0 {
            self.m[row] |= bit;
            self.count += 1;
            true
        } else {
            false
        }
    }
    pub fn popcount(&self) -> u64 {
        self.m.iter().map(|w| w.count_ones() as u64).sum()
    }
}

pub fn fold_matrix(m: &[u64], to_lg_k: u8) -> Vec<u64> {
    let k = 1usize << to_lg_k;
    let mut r = vec![0u64; k];
    for (i, &w) in m.iter().enumerate() {
        r[i & (k - 1)] |= w;
    }
    r
}
