//! sketchsim — deterministic simulation with fault injection around apache/datasketches-rust.
//!
//!   sketchsim run <Cnn> <quick|thorough>      driver: runs every (scenario, profile) part, triages, writes evidence
//!   sketchsim part <Cnn> <scenario> <tier> <out.json> [runs]
//!   sketchsim replay <file>                   re-execute a replay file; exit 1 + VIOLATION iff it reproduces
//!   sketchsim child|replay-inner ...          internal (supervised children)
//!   sketchsim digest <scenario> <tier> <runs> determinism self-test helper

mod alloc;
mod core;
mod corpus;
mod item;
mod model;
mod refhash;
mod registry;
mod rng;
mod scen;
mod speccodec;

use crate::core::*;
use serde_json::{Value, json};
use std::path::{Path, PathBuf};
use std::process::Command;

#[global_allocator]
static GLOBAL: alloc::Tracking = alloc::Tracking;

fn verif_root() -> PathBuf {
    std::env::var("VERIF_ROOT").map(PathBuf::from).unwrap_or_else(|_| PathBuf::from("/verif"))
}

fn binary_for(profile: &str) -> PathBuf {
    let me = std::env::current_exe().expect("current_exe");
    let dir = me.parent().unwrap().parent().unwrap(); // target/
    let sub = if profile == "armed" { "debug" } else { "release" };
    dir.join(sub).join("sketchsim")
}

fn harness_fail(msg: &str) -> ! {
    eprintln!("HARNESS-ERROR: {msg}");
    std::process::exit(2);
}

struct Known {
    property: String,
    class: String,
    desc: String,
}

fn load_known() -> Vec<Known> {
    let path = verif_root().join("known_findings.txt");
    let Ok(s) = std::fs::read_to_string(path) else { return vec![] };
    let mut v = vec![];
    for line in s.lines() {
        let line = line.trim();
        let Some(rest) = line.strip_prefix("finding:") else { continue };
        let rest = rest.trim();
        let Some(rest) = rest.strip_prefix("property=") else { continue };
        let Some((prop, rest)) = rest.split_once(' ') else { continue };
        let Some(rest) = rest.trim().strip_prefix("class=") else { continue };
        let (class, desc) = match rest.split_once(" :: ") {
            Some((c, d)) => (c.trim(), d.trim()),
            None => (rest.trim(), ""),
        };
        v.push(Known { property: prop.to_string(), class: class.to_string(), desc: desc.to_string() });
    }
    v
}

fn cmd_run(prop: &str, tier: Tier) -> i32 {
    let t0 = std::time::Instant::now();
    let Some(spec) = registry::property(prop) else { harness_fail(&format!("unknown or unclaimed property {prop}")) };
    let root = verif_root();
    let replay_dir = root.join("replays").join(prop);
    std::fs::create_dir_all(&replay_dir).ok();
    let scratch = root.join("sim").join("target").join("parts");
    std::fs::create_dir_all(&scratch).ok();
    let mut parts: Vec<PartResult> = vec![];
    let mut panic_only: Vec<bool> = vec![];
    for part in &spec.parts {
        for profile in registry::profiles(part, tier) {
            let bin = binary_for(profile);
            if !bin.exists() {
                harness_fail(&format!("binary for profile {profile} missing: {}", bin.display()));
            }
            let out = scratch.join(format!("{}-{}-{}-{}.json", prop, part.scenario, profile, std::process::id()));
            let mut cmd = Command::new(&bin);
            cmd.arg("part").arg(prop).arg(part.scenario).arg(tier.as_str()).arg(&out);
            if part.scale_pm != 1000 {
                let sc = registry::find_scenario(part.scenario).unwrap_or_else(|| harness_fail("scenario not registered"));
                let n = (sc.runs(tier) * part.scale_pm / 1000).max(1);
                cmd.arg(n.to_string());
            }
            let status = cmd.status().unwrap_or_else(|e| harness_fail(&format!("spawn part: {e}")));
            if !status.success() {
                harness_fail(&format!("part {} [{}] exited with {:?}", part.scenario, profile, status));
            }
            let body = std::fs::read(&out).unwrap_or_else(|e| harness_fail(&format!("read part result: {e}")));
            let pr: PartResult = serde_json::from_slice(&body).unwrap_or_else(|e| harness_fail(&format!("parse part result: {e}")));
            let _ = std::fs::remove_file(&out);
            parts.push(pr);
            panic_only.push(part.panic_only);
        }
    }

    // triage
    let known = load_known();
    let mut violations = 0u64;
    let mut known_hit: Vec<String> = vec![];
    let mut harness_errors: Vec<String> = vec![];
    let mut printed_known = std::collections::BTreeSet::new();
    let mut viol_lines = vec![];
    for (pi, pr) in parts.iter().enumerate() {
        for e in &pr.harness_errors {
            harness_errors.push(format!("[{} {}] {}", pr.scenario, pr.profile, e));
        }
        for f in &pr.found {
            if panic_only[pi] && !(f.class.starts_with("panic@") || f.class.starts_with("abort:")) {
                continue;
            }
            let replay = f.replay.clone().unwrap_or_default();
            // every reported violation must replay in a fresh process
            let bin = binary_for(&pr.profile);
            let st = Command::new(&bin).arg("replay").arg(&replay).arg("--quiet").status();
            let reproduced = matches!(st, Ok(s) if s.code() == Some(1));
            if !reproduced {
                harness_errors.push(format!("replay {} did not reproduce class {}", replay, f.class));
                continue;
            }
            // C17 re-runs other properties' scenarios: a class that is another property's recorded
            // finding (class prefix = that property's id) is recognised as such
            if let Some(k) = known.iter().find(|k| (k.property == prop || (prop == "C17" && f.class.starts_with(&format!("{}.", k.property)))) && k.class == f.class) {
                if printed_known.insert(f.class.clone()) {
                    println!("KNOWN-FINDING: property={} {} :: {} (replay={})", prop, f.class, k.desc, replay);
                }
                known_hit.push(f.class.clone());
            } else {
                violations += 1;
                viol_lines.push(format!("VIOLATION property={} replay={}", prop, replay));
                eprintln!("  class: {}\n  detail: {}\n  scenario: {} profile: {} run: {} (seen {}x) minimised {} -> {} actions", f.class, f.detail, pr.scenario, pr.profile, f.run, f.count, f.minimised_from, f.minimised_to);
            }
        }
    }
    // batch-level statistical clauses
    {
        let mut agg_all = Agg::default();
        for pr in &parts {
            agg_all.merge(&pr.agg);
        }
        for v in registry::batch_check(prop, &agg_all) {
            let path = replay_dir.join(format!("batch-{}-{}.json", tier.as_str(), verif_seed()));
            let rf = ReplayFile {
                property: prop.to_string(),
                scenario: "#batch".to_string(),
                seed: verif_seed(),
                run: 0,
                profile: "release".to_string(),
                tier: tier.as_str().to_string(),
                cfg: json!({"note": "batch-level statistic: replay re-runs the whole batch with this seed and tier"}),
                actions: vec![],
                violation: v.clone(),
                minimised_from: 0,
            };
            std::fs::write(&path, serde_json::to_vec_pretty(&rf).unwrap()).ok();
            if let Some(k) = known.iter().find(|k| k.property == prop && k.class == v.invariant) {
                println!("KNOWN-FINDING: property={} {} :: {}", prop, v.invariant, k.desc);
                known_hit.push(v.invariant.clone());
                printed_known.insert(v.invariant.clone());
            } else {
                violations += 1;
                viol_lines.push(format!("VIOLATION property={} replay={}", prop, path.display()));
                eprintln!("  class: {}\n  detail: {}", v.invariant, v.detail);
            }
        }
    }
    for l in &viol_lines {
        println!("{l}");
    }

    // evidence
    let mut agg = Agg::default();
    let mut samples: Vec<Value> = vec![];
    let mut per_part = vec![];
    for pr in &parts {
        agg.merge(&pr.agg);
        if samples.len() < 6 {
            samples.extend(pr.samples.iter().take(2).cloned());
        }
        per_part.push(json!({
            "scenario": pr.scenario, "profile": pr.profile, "runs": pr.agg.runs, "nontrivial_runs": pr.agg.nontrivial_runs,
            "distinct_shapes": pr.agg.shapes.len(), "wall_s": pr.wall_s,
            "batch_digest": format!("{:016x}{:016x}", pr.agg.digest_xor, pr.agg.digest_sum),
            "violation_classes": pr.found.iter().map(|f| json!({"class": f.class, "count": f.count, "replay": f.replay})).collect::<Vec<_>>(),
        }));
    }
    let wall = t0.elapsed().as_secs_f64();
    let run_wall: f64 = parts.iter().map(|p| p.wall_s).sum::<f64>().max(1e-9);
    let evidence = json!({
        "property_id": prop,
        "tier": tier.as_str(),
        "seed": verif_seed(),
        "level": spec.level,
        "coverage": {
            "evaluations": agg.runs,
            "distinct_nontrivial": agg.shapes.len(),
            "rule": spec.rule,
            "samples": samples,
            "nontrivial_runs": agg.nontrivial_runs,
            "simulated_runs_per_hour": (agg.runs as f64 / run_wall * 3600.0) as u64,
            "simulated_ticks_harness_only": agg.ticks,
            "library_calls": agg.lib_calls,
            "faults_fired": agg.faults,
            "probes": agg.probes,
            "maxima": agg.maxima,
            "parts": per_part,
            "components_real": spec.components_real,
            "components_stub": spec.components_stub,
            "known_findings_matched": known_hit,
            "side_probe_notes": agg.notes,
            "harness_errors": harness_errors,
        },
        "assumptions": spec.assumptions,
        "wall_s": wall,
        "violations": violations,
    });
    let evdir = root.join("evidence");
    std::fs::create_dir_all(&evdir).ok();
    std::fs::write(evdir.join(format!("{prop}.json")), serde_json::to_vec_pretty(&evidence).unwrap())
        .unwrap_or_else(|e| harness_fail(&format!("write evidence: {e}")));
    for n in &agg.notes {
        println!("NOTE: {n}");
    }
    println!(
        "{prop} {}: {} runs, {} distinct non-trivial shapes, {} violation class(es), {} known finding(s), {:.1}s",
        tier.as_str(), agg.runs, agg.shapes.len(), violations, printed_known.len(), wall
    );
    if !harness_errors.is_empty() {
        for e in &harness_errors {
            eprintln!("HARNESS-ERROR: {e}");
        }
        return 2;
    }
    if violations > 0 { 1 } else { 0 }
}

fn cmd_part(prop: &str, scenario: &str, tier: Tier, out: &Path, runs: Option<u64>) -> i32 {
    let Some(sc) = registry::find_scenario(scenario) else { harness_fail("unknown scenario") };
    let replay_dir = verif_root().join("replays").join(prop);
    let pr = run_part(prop, sc.as_ref(), tier, &replay_dir, runs);
    std::fs::write(out, serde_json::to_vec(&pr).unwrap()).unwrap_or_else(|e| harness_fail(&format!("write part: {e}")));
    0
}

fn cmd_replay(file: &Path, quiet: bool) -> i32 {
    let body = std::fs::read(file).unwrap_or_else(|e| harness_fail(&format!("read replay file: {e}")));
    let rf: ReplayFile = serde_json::from_slice(&body).unwrap_or_else(|e| harness_fail(&format!("parse replay file: {e}")));
    if rf.profile != profile_name() {
        let bin = binary_for(&rf.profile);
        let mut c = Command::new(bin);
        c.arg("replay").arg(file);
        if quiet {
            c.arg("--quiet");
        }
        let st = c.status().unwrap_or_else(|e| harness_fail(&format!("exec sibling: {e}")));
        return st.code().unwrap_or(2);
    }
    if rf.scenario == "#batch" {
        // a batch-level statistic: re-run the batch (same seed, same tier) through the driver
        // SAFETY: single-threaded at this point
        unsafe { std::env::set_var("VERIF_SEED", rf.seed.to_string()) };
        let tier = Tier::parse(&rf.tier).unwrap_or(Tier::Quick);
        return cmd_run(&rf.property, tier);
    }
    let Some(sc) = registry::find_scenario(&rf.scenario) else { harness_fail("unknown scenario in replay file") };
    let script = ScriptJson { cfg: rf.cfg.clone(), actions: rf.actions.clone() };
    let scratch = verif_root().join("sim").join("target").join("parts");
    std::fs::create_dir_all(&scratch).ok();
    match exec_script_class(sc.as_ref(), &script, &scratch) {
        Ok(vs) if !vs.is_empty() => {
            let same = vs.iter().any(|v| v.invariant == rf.violation.invariant);
            if !quiet {
                println!("VIOLATION property={} replay={}", rf.property, file.display());
                for v in &vs {
                    println!("  class: {}\n  detail: {}", v.invariant, v.detail);
                }
                if !same {
                    println!("  (recorded class was: {})", rf.violation.invariant);
                }
            }
            if same || !quiet { 1 } else { 3 }
        }
        Ok(_) => {
            if !quiet {
                println!("NOT-REPRODUCED property={} replay={}", rf.property, file.display());
            }
            0
        }
        Err(e) => harness_fail(&e),
    }
}

fn main() {
    refhash::self_test();
    install_panic_hook();
    let args: Vec<String> = std::env::args().collect();
    let code = match args.get(1).map(|s| s.as_str()) {
        Some("run") if args.len() >= 4 => {
            let tier = Tier::parse(&args[3]).unwrap_or_else(|| harness_fail("tier must be quick|thorough"));
            cmd_run(&args[2], tier)
        }
        Some("part") if args.len() >= 6 => {
            let tier = Tier::parse(&args[4]).unwrap_or_else(|| harness_fail("tier"));
            cmd_part(&args[2], &args[3], tier, Path::new(&args[5]), args.get(6).and_then(|s| s.parse().ok()))
        }
        Some("replay") if args.len() >= 3 => cmd_replay(Path::new(&args[2]), args.iter().any(|a| a == "--quiet")),
        Some("child") if args.len() >= 7 => {
            let sc = registry::find_scenario(&args[2]).unwrap_or_else(|| harness_fail("scenario"));
            let tier = Tier::parse(&args[3]).unwrap();
            child_main(sc.as_ref(), args[4].parse().unwrap(), tier, args[5].parse().unwrap(), args[6].parse().unwrap(), args.get(7).and_then(|s| s.parse().ok()).unwrap_or(0));
            0
        }
        Some("replay-inner") if args.len() >= 3 => {
            let body = std::fs::read(&args[2]).unwrap_or_else(|e| harness_fail(&e.to_string()));
            let v: Value = serde_json::from_slice(&body).unwrap_or_else(|e| harness_fail(&e.to_string()));
            let sc = registry::find_scenario(v["scenario"].as_str().unwrap_or("")).unwrap_or_else(|| harness_fail("scenario"));
            let script = ScriptJson { cfg: v["cfg"].clone(), actions: v["actions"].as_array().cloned().unwrap_or_default() };
            replay_inner_main(sc.as_ref(), &script, v["from"].as_u64().unwrap_or(0) as usize);
            0
        }
        Some("digest") if args.len() >= 5 => {
            // determinism helper: prints the batch digest of the first N runs
            let sc = registry::find_scenario(&args[2]).unwrap_or_else(|| harness_fail("scenario"));
            let tier = Tier::parse(&args[3]).unwrap();
            let n: u64 = args[4].parse().unwrap();
            let dir = verif_root().join("sim").join("target").join("parts");
            std::fs::create_dir_all(&dir).ok();
            let pr = run_part("selftest", sc.as_ref(), tier, &dir, Some(n));
            println!("{} {} runs={} digest={:016x}{:016x} classes={:?}", pr.scenario, pr.profile, pr.agg.runs, pr.agg.digest_xor, pr.agg.digest_sum, pr.found.iter().map(|f| (&f.class, f.run)).collect::<Vec<_>>());
            0
        }
        Some("list") => {
            for s in registry::all_scenarios() {
                println!("{}", s.name());
            }
            0
        }
        _ => {
            eprintln!("usage: sketchsim run <Cnn> <quick|thorough> | replay <file> | list");
            2
        }
    };
    std::process::exit(code);
}
