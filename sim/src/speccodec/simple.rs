//! Bloom (21), Count-Min (18), Frequent Items (10) — DESIGN.md Appendix A.

use super::Rd;

// ---- Bloom -----------------------------------------------------------------------------------

#[derive(Clone, Debug, PartialEq)]
pub struct BloomImage {
    pub num_hashes: u16,
    pub seed: u64,
    pub num_longs: u32,
    pub empty: bool,
    pub bits_used: u64,
    pub dirty: bool,
    pub words: Vec<u64>,
    pub implied_len: usize,
}

pub fn bloom_decode(b: &[u8]) -> Result<BloomImage, String> {
    let mut r = Rd::new(b);
    let pre = r.u8("preLongs")?;
    let ser = r.u8("serVer")?;
    let fam = r.u8("family")?;
    let flags = r.u8("flags")?;
    if ser != 1 {
        return Err(format!("serVer {ser}"));
    }
    if fam != 21 {
        return Err(format!("family {fam}"));
    }
    let empty = flags & 4 != 0;
    if pre != if empty { 3 } else { 4 } {
        return Err(format!("preLongs {pre} with empty = {empty}"));
    }
    let num_hashes = r.u16("numHashes")?;
    let _ = r.u16("unused")?;
    let seed = r.u64("seed")?;
    let num_longs = r.u32("numLongs")?;
    let _ = r.u32("unused")?;
    if num_hashes == 0 || num_hashes > i16::MAX as u16 {
        return Err(format!("numHashes {num_hashes}"));
    }
    if num_longs == 0 || num_longs > i32::MAX as u32 {
        return Err(format!("numLongs {num_longs}"));
    }
    let mut img = BloomImage { num_hashes, seed, num_longs, empty, bits_used: 0, dirty: false, words: vec![], implied_len: 0 };
    if !empty {
        let bu = r.u64("numBitsSet")?;
        for _ in 0..num_longs {
            img.words.push(r.u64("bit array word")?);
        }
        let pc: u64 = img.words.iter().map(|w| w.count_ones() as u64).sum();
        if bu == u64::MAX {
            img.dirty = true;
            img.bits_used = pc;
        } else {
            if bu != pc {
                return Err(format!("numBitsSet {bu} but the array holds {pc} set bits"));
            }
            img.bits_used = bu;
        }
    }
    img.implied_len = r.p;
    Ok(img)
}

// ---- Count-Min ---------------------------------------------------------------------------------

#[derive(Clone, Debug, PartialEq)]
pub struct CmImage {
    pub num_buckets: u32,
    pub num_hashes: u8,
    pub seed_hash: u16,
    pub empty: bool,
    /// raw 8-byte little-endian words
    pub total: u64,
    pub table: Vec<u64>,
    pub implied_len: usize,
}

pub fn cm_decode(b: &[u8]) -> Result<CmImage, String> {
    let mut r = Rd::new(b);
    let pre = r.u8("preLongs")?;
    let ser = r.u8("serVer")?;
    let fam = r.u8("family")?;
    let flags = r.u8("flags")?;
    let _ = r.u32("unused")?;
    if pre != 2 {
        return Err(format!("preLongs {pre}"));
    }
    if ser != 1 {
        return Err(format!("serVer {ser}"));
    }
    if fam != 18 {
        return Err(format!("family {fam}"));
    }
    let num_buckets = r.u32("numBuckets")?;
    let num_hashes = r.u8("numHashes")?;
    let seed_hash = r.u16("seedHash")?;
    let _ = r.u8("unused")?;
    let empty = flags & 1 != 0;
    let mut img = CmImage { num_buckets, num_hashes, seed_hash, empty, total: 0, table: vec![], implied_len: 0 };
    if num_buckets < 3 || num_hashes == 0 {
        return Err(format!("shape {num_hashes}x{num_buckets}"));
    }
    if !empty {
        img.total = r.u64("totalWeight")?;
        for _ in 0..(num_buckets as usize * num_hashes as usize) {
            img.table.push(r.u64("counter")?);
        }
    }
    img.implied_len = r.p;
    Ok(img)
}

pub fn cm_encode(num_hashes: u8, num_buckets: u32, seed_hash: u16, total: u64, table: &[u64]) -> Vec<u8> {
    let empty = total == 0;
    let mut b = vec![2, 1, 18, empty as u8, 0, 0, 0, 0];
    b.extend_from_slice(&num_buckets.to_le_bytes());
    b.push(num_hashes);
    b.extend_from_slice(&seed_hash.to_le_bytes());
    b.push(0);
    if !empty {
        b.extend_from_slice(&total.to_le_bytes());
        for c in table {
            b.extend_from_slice(&c.to_le_bytes());
        }
    }
    b
}

// ---- Frequent Items ----------------------------------------------------------------------------

#[derive(Clone, Debug, PartialEq)]
pub enum FiItem {
    Long(u64),
    Str(Vec<u8>),
}

#[derive(Clone, Debug, PartialEq)]
pub struct FiImage {
    pub lg_max: u8,
    pub lg_cur: u8,
    pub empty: bool,
    pub stream_weight: u64,
    pub offset: u64,
    pub counts: Vec<u64>,
    pub items: Vec<FiItem>,
    pub implied_len: usize,
}

pub fn fi_decode(b: &[u8], strings: bool) -> Result<FiImage, String> {
    let mut r = Rd::new(b);
    let pre = r.u8("preLongs")? & 0x3f;
    let ser = r.u8("serVer")?;
    let fam = r.u8("family")?;
    let lg_max = r.u8("lgMaxMapSize")?;
    let lg_cur = r.u8("lgCurMapSize")?;
    let flags = r.u8("flags")?;
    let _ = r.u16("unused (the preamble is one full long)")?;
    if ser != 1 {
        return Err(format!("serVer {ser}"));
    }
    if fam != 10 {
        return Err(format!("family {fam}"));
    }
    let empty = flags & 4 != 0;
    let mut img = FiImage { lg_max, lg_cur, empty, stream_weight: 0, offset: 0, counts: vec![], items: vec![], implied_len: 8 };
    if lg_cur > lg_max {
        return Err(format!("lgCur {lg_cur} > lgMax {lg_max}"));
    }
    if empty {
        if pre != 1 {
            return Err(format!("empty image with preLongs {pre}"));
        }
        return Ok(img);
    }
    if pre != 4 {
        return Err(format!("non-empty image with preLongs {pre}"));
    }
    let n = r.u32("activeItems")? as usize;
    let _ = r.u32("unused")?;
    img.stream_weight = r.u64("streamWeight")?;
    img.offset = r.u64("offset")?;
    for _ in 0..n {
        img.counts.push(r.u64("count")?);
    }
    for _ in 0..n {
        if strings {
            let l = r.u32("string length")? as usize;
            let s = r.take(l, "string bytes")?;
            if std::str::from_utf8(s).is_err() {
                return Err("item is not valid UTF-8".into());
            }
            img.items.push(FiItem::Str(s.to_vec()));
        } else {
            img.items.push(FiItem::Long(r.u64("item")?));
        }
    }
    img.implied_len = r.p;
    Ok(img)
}

pub fn fi_encode(lg_max: u8, lg_cur: u8, stream_weight: u64, offset: u64, entries: &[(FiItem, u64)], legacy_empty_bit: bool) -> Vec<u8> {
    let empty = stream_weight == 0 && entries.is_empty();
    let mut b = vec![if empty { 1 } else { 4 }, 1, 10, lg_max, lg_cur, if empty { if legacy_empty_bit { 5 } else { 4 } } else { 0 }, 0, 0];
    if empty {
        return b;
    }
    b.extend_from_slice(&(entries.len() as u32).to_le_bytes());
    b.extend_from_slice(&[0; 4]);
    b.extend_from_slice(&stream_weight.to_le_bytes());
    b.extend_from_slice(&offset.to_le_bytes());
    for (_, c) in entries {
        b.extend_from_slice(&c.to_le_bytes());
    }
    for (it, _) in entries {
        match it {
            FiItem::Long(v) => b.extend_from_slice(&v.to_le_bytes()),
            FiItem::Str(s) => {
                b.extend_from_slice(&(s.len() as u32).to_le_bytes());
                b.extend_from_slice(s);
            }
        }
    }
    b
}
