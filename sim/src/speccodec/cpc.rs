//! CPC (family 16, serVer 1) decoder — DESIGN.md Appendix A and §3.8.
//!
//! The control flow is written from the format description (FM85 paper / Java CpcCompression).
//! The entropy-coding table DATA is the specification itself and is taken from the repository's
//! `compression_data.rs` at build time; only the ENCODING tables and the ENCODING column
//! permutations are used — decoding tables and inverse permutations are derived here, so a
//! writer/reader pair that is wrong consistently in its decode tables is still caught.

use super::Rd;

#[allow(dead_code, clippy::all)]
mod tables {
    #[path = "/repo/datasketches/src/cpc/compression_data.rs"]
    pub mod data;
    pub fn perm_enc(pp: usize) -> &'static [u8; 56] {
        &data::COLUMN_PERMUTATIONS_FOR_ENCODING[pp]
    }
    pub fn byte_enc(pp: usize) -> &'static [u16] {
        &data::ENCODING_TABLES_FOR_HIGH_ENTROPY_BYTE[pp][..]
    }
    pub fn unary_enc() -> &'static [u16] {
        &data::LENGTH_LIMITED_UNARY_ENCODING_TABLE65[..]
    }
}

#[derive(Clone, Debug, PartialEq)]
pub struct CpcImage {
    pub lg_k: u8,
    pub fic: u8,
    pub seed_hash: u16,
    pub num_coupons: u32,
    pub has_hip: bool,
    pub has_table: bool,
    pub has_window: bool,
    pub kxp: f64,
    pub hip_accum: f64,
    pub matrix: Vec<u64>,
    pub implied_len: usize,
}

fn make_decode(enc: &[u16]) -> Vec<(u8, u16)> {
    // 12-bit peek -> (code length, symbol)
    let mut t = vec![(0u8, 0u16); 4096];
    for (sym, &e) in enc.iter().enumerate() {
        let len = (e >> 12) as u8;
        let code = (e & 0xfff) as usize;
        if len == 0 || len > 12 {
            continue;
        }
        let step = 1usize << len;
        let mut i = code;
        while i < 4096 {
            t[i] = (len, sym as u16);
            i += step;
        }
    }
    t
}

struct Bits<'a> {
    w: &'a [u32],
    i: usize,
    buf: u64,
    n: u32,
    overrun: bool,
}

impl<'a> Bits<'a> {
    fn new(w: &'a [u32]) -> Self {
        Bits { w, i: 0, buf: 0, n: 0, overrun: false }
    }
    fn fill(&mut self, need: u32) {
        while self.n < need {
            let word = match self.w.get(self.i) {
                Some(x) => *x,
                None => {
                    self.overrun = true;
                    0
                }
            };
            self.buf |= (word as u64) << self.n;
            self.i += 1;
            self.n += 32;
        }
    }
    fn peek(&mut self, bits: u32) -> u64 {
        self.fill(bits);
        self.buf & ((1u64 << bits) - 1)
    }
    fn drop(&mut self, bits: u32) {
        self.buf >>= bits;
        self.n -= bits;
    }
    fn unary(&mut self) -> u64 {
        let mut total = 0u64;
        loop {
            self.fill(8);
            let p = (self.buf & 0xff) as u8;
            if p != 0 {
                let z = p.trailing_zeros();
                self.drop(z + 1);
                return total + z as u64;
            }
            total += 8;
            self.drop(8);
            if total > (1 << 34) {
                self.overrun = true;
                return total;
            }
        }
    }
}

pub fn pseudo_phase(lg_k: u8, c: u64) -> usize {
    let k = 1u128 << lg_k;
    let c = c as u128;
    if 1000 * c < 2375 * k {
        if 4 * c < 3 * k {
            16
        } else if 10 * c < 11 * k {
            17
        } else if 100 * c < 132 * k {
            18
        } else if 3 * c < 5 * k {
            19
        } else if 1000 * c < 1965 * k {
            20
        } else if 1000 * c < 2275 * k {
            21
        } else {
            6
        }
    } else {
        ((c >> (lg_k - 4)) & 15) as usize
    }
}

fn floor_log2(x: u64) -> u32 {
    63 - x.leading_zeros()
}

fn decode_pairs(words: &[u32], num_pairs: usize, lg_k: u8) -> Result<Vec<(u32, u8)>, String> {
    if num_pairs == 0 {
        return Ok(vec![]);
    }
    let k = 1u64 << lg_k;
    // Golomb base bits: floor(log2((k + n - n) / n)) with (k + n) as the range, as the writers compute it
    let quotient = k / num_pairs as u64;
    let base_bits = if quotient == 0 { 0 } else { floor_log2(quotient) };
    let dec = make_decode(tables::unary_enc());
    let mut bits = Bits::new(words);
    let mut out = Vec::with_capacity(num_pairs);
    let mut row = 0u64;
    let mut col_pred = 0u32;
    for _ in 0..num_pairs {
        let p = bits.peek(12) as usize;
        let (len, x_delta) = dec[p];
        if len == 0 {
            return Err("invalid x-delta code word".into());
        }
        bits.drop(len as u32);
        let hi = bits.unary();
        let lo = if base_bits > 0 {
            let v = bits.peek(base_bits);
            bits.drop(base_bits);
            v
        } else {
            0
        };
        let y_delta = (hi << base_bits) | lo;
        if y_delta > 0 {
            col_pred = 0;
        }
        row += y_delta;
        let col = col_pred + x_delta as u32;
        if row >= k || col > 63 {
            return Err(format!("decoded pair (row {row}, col {col}) outside the {k} x 64 matrix"));
        }
        out.push((row as u32, col as u8));
        col_pred = col + 1;
        if bits.overrun {
            return Err("pair bit stream shorter than the header implies".into());
        }
    }
    Ok(out)
}

fn decode_window(words: &[u32], lg_k: u8, c: u64) -> Result<Vec<u8>, String> {
    let k = 1usize << lg_k;
    let pp = pseudo_phase(lg_k, c);
    let dec = make_decode(tables::byte_enc(pp));
    let mut bits = Bits::new(words);
    let mut out = Vec::with_capacity(k);
    for _ in 0..k {
        let p = bits.peek(12) as usize;
        let (len, sym) = dec[p];
        if len == 0 {
            return Err("invalid window byte code word".into());
        }
        bits.drop(len as u32);
        out.push(sym as u8);
        if bits.overrun {
            return Err("window bit stream shorter than the header implies".into());
        }
    }
    Ok(out)
}

pub fn decode(b: &[u8]) -> Result<CpcImage, String> {
    let mut r = Rd::new(b);
    let pre_ints = r.u8("preInts")?;
    let ser = r.u8("serVer")?;
    let fam = r.u8("family")?;
    let lg_k = r.u8("lgK")?;
    let fic = r.u8("firstInterestingColumn")?;
    let flags = r.u8("flags")?;
    let seed_hash = r.u16("seedHash")?;
    if ser != 1 {
        return Err(format!("serVer {ser}"));
    }
    if fam != 16 {
        return Err(format!("family {fam}"));
    }
    if !(4..=26).contains(&lg_k) {
        return Err(format!("lgK {lg_k}"));
    }
    if fic > 63 {
        return Err(format!("firstInterestingColumn {fic}"));
    }
    if flags & 2 == 0 {
        return Err("COMPRESSED flag clear".into());
    }
    if flags & 1 != 0 {
        return Err("big-endian flag set".into());
    }
    let has_hip = flags & 4 != 0;
    let has_table = flags & 8 != 0;
    let has_window = flags & 16 != 0;
    let k = 1usize << lg_k;
    let mut img = CpcImage { lg_k, fic, seed_hash, num_coupons: 0, has_hip, has_table, has_window, kxp: k as f64, hip_accum: 0.0, matrix: vec![0u64; k], implied_len: 8 };
    if !has_table && !has_window {
        if pre_ints != 2 {
            return Err(format!("empty image with preInts {pre_ints}"));
        }
        return Ok(img);
    }
    let c = r.u32("numCoupons")?;
    img.num_coupons = c;
    let mut num_sv = c;
    let mut table_words = 0usize;
    let mut window_words = 0usize;
    if has_table && has_window {
        num_sv = r.u32("numTableEntries")?;
        if has_hip {
            img.kxp = r.f64("kxp")?;
            img.hip_accum = r.f64("hipAccum")?;
        }
    }
    if has_table {
        table_words = r.u32("tableWords")? as usize;
    }
    if has_window {
        window_words = r.u32("windowWords")? as usize;
    }
    if has_hip && !(has_table && has_window) {
        img.kxp = r.f64("kxp")?;
        img.hip_accum = r.f64("hipAccum")?;
    }
    let want_pre = 2 + 1 + if has_hip { 4 } else { 0 } + if has_table { 1 + has_window as u8 } else { 0 } + has_window as u8;
    if pre_ints != want_pre {
        return Err(format!("preInts {pre_ints}, flags imply {want_pre}"));
    }
    let ww: Vec<u32> = (0..window_words).map(|_| r.u32("window word")).collect::<Result<_, _>>()?;
    let tw: Vec<u32> = (0..table_words).map(|_| r.u32("table word")).collect::<Result<_, _>>()?;
    img.implied_len = r.p;
    if c == 0 {
        return Err("non-empty image with zero coupons".into());
    }
    let cw = c as u64;
    let flavor = crate::model::cpc::flavor(lg_k, cw);
    use crate::model::cpc::Flavor;
    match flavor {
        Flavor::Empty => unreachable!(),
        Flavor::Sparse | Flavor::Hybrid => {
            if has_window || !has_table {
                return Err(format!("flavor {flavor:?} image must have a table and no window"));
            }
            for (row, col) in decode_pairs(&tw, num_sv as usize, lg_k)? {
                img.matrix[row as usize] |= 1u64 << col;
            }
        }
        Flavor::Pinned | Flavor::Sliding => {
            if !has_window {
                return Err(format!("flavor {flavor:?} image must have a window"));
            }
            let offset = crate::model::cpc::window_offset(lg_k, cw);
            if offset > 56 {
                return Err(format!("window offset {offset}"));
            }
            let window = decode_window(&ww, lg_k, cw)?;
            let default_row = (1u64 << offset) - 1;
            for i in 0..k {
                img.matrix[i] = default_row | (window[i] as u64) << offset;
            }
            if has_table {
                let pairs = decode_pairs(&tw, num_sv as usize, lg_k)?;
                let pp = pseudo_phase(lg_k, cw);
                // inverse of the encoding permutation
                let mut inv = [0u8; 56];
                if flavor == Flavor::Sliding {
                    if pp >= 16 {
                        return Err(format!("sliding flavor with pseudo-phase {pp}"));
                    }
                    for (i, &p) in tables::perm_enc(pp).iter().enumerate() {
                        inv[p as usize] = i as u8;
                    }
                }
                for (row, col) in pairs {
                    let col = if flavor == Flavor::Pinned {
                        if col >= 56 {
                            return Err(format!("pinned pair column {col}"));
                        }
                        col + 8
                    } else {
                        if col >= 56 {
                            return Err(format!("sliding pair column {col}"));
                        }
                        (inv[col as usize] + offset + 8) & 63
                    };
                    img.matrix[row as usize] ^= 1u64 << col;
                }
            }
        }
    }
    let pc: u64 = img.matrix.iter().map(|w| w.count_ones() as u64).sum();
    if pc != cw {
        return Err(format!("numCoupons {c} but the decoded matrix has {pc} bits set"));
    }
    Ok(img)
}

// ---------------------------------------------------------------------------------------------
// Re-encoding of the pair (surprising-value table) section: lets the corruption campaign build
// images whose entropy coding is perfectly well formed while the *decoded* pairs are not
// (column 56..63, row >= k, duplicates, unsorted order). Written from the same description as
// the decoder above, using only the encoding table.

struct BitsOut {
    w: Vec<u32>,
    buf: u64,
    n: u32,
}

impl BitsOut {
    fn put(&mut self, v: u64, bits: u32) {
        debug_assert!(bits <= 32);
        self.buf |= (v & ((1u64 << bits) - 1)) << self.n;
        self.n += bits;
        while self.n >= 32 {
            self.w.push(self.buf as u32);
            self.buf >>= 32;
            self.n -= 32;
        }
    }
    fn finish(mut self) -> Vec<u32> {
        // the writers pad with 11 zero bits so that a 12-bit peek never runs off the end
        self.put(0, 11);
        if self.n > 0 {
            self.w.push(self.buf as u32);
        }
        self.w
    }
}

/// Entropy-code `pairs` (any order, any values: that is the point) for a table of `num_pairs`
/// declared entries at `lg_k`. Returns None when a delta cannot be expressed (negative row or
/// column step, column step above 64).
pub fn encode_pairs(pairs: &[(u32, u8)], lg_k: u8) -> Option<Vec<u32>> {
    if pairs.is_empty() {
        return Some(vec![]);
    }
    let k = 1u64 << lg_k;
    let quotient = k / pairs.len() as u64;
    let base_bits = if quotient == 0 { 0 } else { floor_log2(quotient) };
    let enc = tables::unary_enc();
    let mut out = BitsOut { w: vec![], buf: 0, n: 0 };
    let mut row = 0u64;
    let mut col_pred = 0u32;
    for &(r, c) in pairs {
        let r = r as u64;
        if r < row {
            return None;
        }
        let y_delta = r - row;
        if y_delta > 0 {
            col_pred = 0;
        }
        if (c as u32) < col_pred {
            return None;
        }
        let x_delta = c as u32 - col_pred;
        let e = *enc.get(x_delta as usize)?;
        let (len, code) = ((e >> 12) as u32, (e & 0xfff) as u64);
        if len == 0 {
            return None;
        }
        out.put(code, len);
        let hi = y_delta >> base_bits;
        if hi > 4096 {
            return None;
        }
        for _ in 0..hi / 16 {
            out.put(0, 16);
        }
        out.put(0, (hi % 16) as u32);
        out.put(1, 1);
        if base_bits > 0 {
            out.put(y_delta & ((1u64 << base_bits) - 1), base_bits);
        }
        row = r;
        col_pred = c as u32 + 1;
    }
    Some(out.finish())
}

/// The parts of an image needed to rebuild it around a new pair list.
pub struct CpcParts {
    pub lg_k: u8,
    pub has_window: bool,
    /// byte offset of the field that declares the number of table entries
    pub num_pairs_at: usize,
    /// byte offset of the tableWords field
    pub table_words_at: usize,
    /// byte offset where the table words start (they are the last section)
    pub table_at: usize,
    pub pairs: Vec<(u32, u8)>,
}

/// Header walk of a valid image with a table; the pairs are returned as stored (for windowed
/// flavors: compressed columns 0..55, before the +8 / permutation step).
pub fn split_table(b: &[u8]) -> Result<CpcParts, String> {
    let mut r = Rd::new(b);
    let _pre = r.u8("preInts")?;
    let _ser = r.u8("serVer")?;
    let _fam = r.u8("family")?;
    let lg_k = r.u8("lgK")?;
    let _fic = r.u8("fic")?;
    let flags = r.u8("flags")?;
    let _sh = r.u16("seedHash")?;
    let (has_hip, has_table, has_window) = (flags & 4 != 0, flags & 8 != 0, flags & 16 != 0);
    if !has_table || !(4..=26).contains(&lg_k) {
        return Err("no table".into());
    }
    let c_at = r.p;
    let c = r.u32("numCoupons")?;
    let mut num_pairs_at = c_at;
    let mut n = c;
    if has_window {
        num_pairs_at = r.p;
        n = r.u32("numTableEntries")?;
        if has_hip {
            r.f64("kxp")?;
            r.f64("hip")?;
        }
    }
    let table_words_at = r.p;
    let tw = r.u32("tableWords")? as usize;
    let mut ww = 0usize;
    if has_window {
        ww = r.u32("windowWords")? as usize;
    }
    if has_hip && !has_window {
        r.f64("kxp")?;
        r.f64("hip")?;
    }
    for _ in 0..ww {
        r.u32("window word")?;
    }
    let table_at = r.p;
    let words: Vec<u32> = (0..tw).map(|_| r.u32("table word")).collect::<Result<_, _>>()?;
    let pairs = decode_pairs_raw(&words, n as usize, lg_k)?;
    Ok(CpcParts { lg_k, has_window, num_pairs_at, table_words_at, table_at, pairs })
}

fn decode_pairs_raw(words: &[u32], num_pairs: usize, lg_k: u8) -> Result<Vec<(u32, u8)>, String> {
    decode_pairs(words, num_pairs, lg_k)
}

/// Image `b` with its table section replaced by the entropy coding of `pairs`.
pub fn with_pairs(b: &[u8], parts: &CpcParts, pairs: &[(u32, u8)]) -> Option<Vec<u8>> {
    let words = encode_pairs(pairs, parts.lg_k)?;
    let mut out = b[..parts.table_at].to_vec();
    out[parts.num_pairs_at..parts.num_pairs_at + 4].copy_from_slice(&(pairs.len() as u32).to_le_bytes());
    out[parts.table_words_at..parts.table_words_at + 4].copy_from_slice(&(words.len() as u32).to_le_bytes());
    for w in words {
        out.extend_from_slice(&w.to_le_bytes());
    }
    Some(out)
}
