//! Theta compact sketches (family 3), serial versions 1-4 — DESIGN.md Appendix A.

use super::Rd;

pub const MAX_THETA: u64 = i64::MAX as u64;

#[derive(Clone, Debug, PartialEq)]
pub struct ThetaImage {
    pub ser_ver: u8,
    pub pre_longs: u8,
    pub seed_hash: u16,
    pub theta: u64,
    pub empty: bool,
    pub ordered: bool,
    pub entries: Vec<u64>,
    pub entry_bits: u8,
    pub num_entries_bytes: u8,
    pub implied_len: usize,
}

fn unpack_msb(bytes: &[u8], n: usize, bits: u8) -> Vec<u64> {
    let mut out = Vec::with_capacity(n);
    let mut pos = 0usize; // bit position
    for _ in 0..n {
        let mut v = 0u64;
        for _ in 0..bits {
            let byte = bytes[pos / 8];
            let bit = (byte >> (7 - pos % 8)) & 1;
            v = (v << 1) | bit as u64;
            pos += 1;
        }
        out.push(v);
    }
    out
}

fn pack_msb(vals: &[u64], bits: u8) -> Vec<u8> {
    let total = vals.len() * bits as usize;
    let mut out = vec![0u8; total.div_ceil(8)];
    let mut pos = 0usize;
    for &v in vals {
        for b in (0..bits).rev() {
            if (v >> b) & 1 == 1 {
                out[pos / 8] |= 1 << (7 - pos % 8);
            }
            pos += 1;
        }
    }
    out
}

pub fn decode(b: &[u8]) -> Result<ThetaImage, String> {
    let mut r = Rd::new(b);
    let pre_longs = r.u8("preLongs")? & 0x3f;
    let ser_ver = r.u8("serVer")?;
    let family = r.u8("family")?;
    if family != 3 {
        return Err(format!("family {family} != 3"));
    }
    let mut img = ThetaImage { ser_ver, pre_longs, seed_hash: 0, theta: MAX_THETA, empty: false, ordered: true, entries: vec![], entry_bits: 0, num_entries_bytes: 0, implied_len: 0 };
    match ser_ver {
        3 => {
            let _b3 = r.u8("lgNomLongs")?;
            let _b4 = r.u8("lgArrLongs")?;
            let flags = r.u8("flags")?;
            img.seed_hash = r.u16("seedHash")?;
            if flags & 1 != 0 {
                return Err("big-endian flag set".into());
            }
            if flags & 8 == 0 {
                return Err("COMPACT flag clear on a compact image".into());
            }
            if flags & 2 == 0 {
                return Err("READ_ONLY flag clear on a compact image".into());
            }
            img.empty = flags & 4 != 0;
            img.ordered = flags & 16 != 0;
            match pre_longs {
                1 => {
                    if !img.empty {
                        // single item: readers infer it from preLongs 1 and not empty; Java/C++
                        // writers always mark it ORDERED
                        if !img.ordered {
                            return Err("single-item image without ORDERED flag (Java's single-item check requires it)".into());
                        }
                        img.entries.push(r.u64("single item")?);
                    }
                }
                2 | 3 => {
                    if img.empty {
                        return Err(format!("EMPTY flag with preLongs {pre_longs}"));
                    }
                    let n = r.u32("count")? as usize;
                    let _p = r.u32("p")?;
                    if pre_longs == 3 {
                        img.theta = r.u64("theta")?;
                    }
                    for _ in 0..n {
                        img.entries.push(r.u64("entry")?);
                    }
                }
                p => return Err(format!("preLongs {p}")),
            }
        }
        4 => {
            img.entry_bits = r.u8("entryBits")?;
            img.num_entries_bytes = r.u8("numEntriesBytes")?;
            let flags = r.u8("flags")?;
            img.seed_hash = r.u16("seedHash")?;
            if flags & 8 == 0 || flags & 2 == 0 || flags & 16 == 0 {
                return Err(format!("v4 flags {flags:#x}: COMPACT, READ_ONLY and ORDERED expected"));
            }
            if flags & 4 != 0 {
                return Err("v4 image with EMPTY flag".into());
            }
            if !(1..=2).contains(&pre_longs) {
                return Err(format!("v4 preLongs {pre_longs}"));
            }
            if pre_longs == 2 {
                img.theta = r.u64("theta")?;
            }
            if !(1..=63).contains(&img.entry_bits) {
                return Err(format!("entryBits {}", img.entry_bits));
            }
            if !(1..=4).contains(&img.num_entries_bytes) {
                return Err(format!("numEntriesBytes {}", img.num_entries_bytes));
            }
            let mut n = 0usize;
            for i in 0..img.num_entries_bytes {
                n |= (r.u8("count byte")? as usize) << (8 * i);
            }
            let nbytes = (n * img.entry_bits as usize).div_ceil(8);
            let packed = r.take(nbytes, "packed deltas")?;
            let deltas = unpack_msb(packed, n, img.entry_bits);
            let mut prev = 0u64;
            for d in deltas {
                prev = prev.wrapping_add(d);
                img.entries.push(prev);
            }
        }
        1 => {
            let _ = r.take(5, "unused")?;
            let n = r.u32("count")? as usize;
            let _ = r.u32("p")?;
            img.theta = r.u64("theta")?;
            if pre_longs != 3 {
                return Err(format!("v1 preLongs {pre_longs}"));
            }
            img.empty = n == 0 && img.theta == MAX_THETA;
            for _ in 0..n {
                img.entries.push(r.u64("entry")?);
            }
        }
        2 => {
            let _ = r.take(3, "unused")?;
            img.seed_hash = r.u16("seedHash")?;
            match pre_longs {
                1 => img.empty = true,
                2 => {
                    let n = r.u32("count")? as usize;
                    let _ = r.u32("p")?;
                    for _ in 0..n {
                        img.entries.push(r.u64("entry")?);
                    }
                }
                3 => {
                    let n = r.u32("count")? as usize;
                    let _ = r.u32("p")?;
                    img.theta = r.u64("theta")?;
                    img.empty = n == 0 && img.theta == MAX_THETA;
                    for _ in 0..n {
                        img.entries.push(r.u64("entry")?);
                    }
                }
                p => return Err(format!("v2 preLongs {p}")),
            }
        }
        v => return Err(format!("serVer {v}")),
    }
    for &e in &img.entries {
        if e == 0 || e >= img.theta {
            return Err(format!("entry {e:#x} not in (0, theta {:#x})", img.theta));
        }
    }
    if img.ordered {
        for w in img.entries.windows(2) {
            if w[0] >= w[1] {
                return Err("ORDERED image whose entries are not strictly increasing".into());
            }
        }
    }
    img.implied_len = r.p;
    Ok(img)
}

/// Encode in the given serial version. `entries` in the order to be written.
/// `single_flag`: set the SINGLE_ITEM flag bit on v3 single-item images (writers may or may not).
pub fn encode(ver: u8, entries: &[u64], theta: u64, empty: bool, ordered: bool, seed_hash: u16, single_flag: bool, java_p: bool) -> Vec<u8> {
    let mut b = vec![];
    let est = theta < MAX_THETA;
    let p_bytes: [u8; 4] = if java_p { 1.0f32.to_le_bytes() } else { [0; 4] };
    match ver {
        3 => {
            let single = !empty && !est && entries.len() == 1;
            let pre = if est { 3 } else if empty || single { 1 } else { 2 };
            b.extend_from_slice(&[pre, 3, 3, 0, 0]);
            let mut flags = 2 | 8;
            if empty { flags |= 4 }
            if ordered || empty || single { flags |= 16 }
            if single && single_flag { flags |= 32 }
            b.push(flags);
            b.extend_from_slice(&seed_hash.to_le_bytes());
            if pre > 1 {
                b.extend_from_slice(&(entries.len() as u32).to_le_bytes());
                b.extend_from_slice(&p_bytes);
            }
            if est {
                b.extend_from_slice(&theta.to_le_bytes());
            }
            for e in entries {
                b.extend_from_slice(&e.to_le_bytes());
            }
        }
        4 => {
            let mut prev = 0u64;
            let mut ored = 0u64;
            let mut deltas = vec![];
            for &e in entries {
                let d = e - prev;
                ored |= d;
                deltas.push(d);
                prev = e;
            }
            let bits = (64 - ored.leading_zeros()) as u8;
            let n = entries.len() as u32;
            let nb = ((32 - n.leading_zeros()).div_ceil(8)) as u8;
            b.extend_from_slice(&[if est { 2 } else { 1 }, 4, 3, bits, nb, 2 | 8 | 16]);
            b.extend_from_slice(&seed_hash.to_le_bytes());
            if est {
                b.extend_from_slice(&theta.to_le_bytes());
            }
            for i in 0..nb {
                b.push((n >> (8 * i)) as u8);
            }
            b.extend_from_slice(&pack_msb(&deltas, bits));
        }
        1 => {
            b.extend_from_slice(&[3, 1, 3, 0, 0, 0, 0, 0]);
            b.extend_from_slice(&(entries.len() as u32).to_le_bytes());
            b.extend_from_slice(&p_bytes);
            b.extend_from_slice(&theta.to_le_bytes());
            for e in entries {
                b.extend_from_slice(&e.to_le_bytes());
            }
        }
        _ => {
            // serial version 2
            let pre = if empty { 1 } else if est { 3 } else { 2 };
            b.extend_from_slice(&[pre, 2, 3, 0, 0, 0]);
            b.extend_from_slice(&seed_hash.to_le_bytes());
            if pre > 1 {
                b.extend_from_slice(&(entries.len() as u32).to_le_bytes());
                b.extend_from_slice(&p_bytes);
                if pre == 3 {
                    b.extend_from_slice(&theta.to_le_bytes());
                }
                for e in entries {
                    b.extend_from_slice(&e.to_le_bytes());
                }
            }
        }
    }
    b
}
