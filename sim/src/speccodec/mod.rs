//! Independent codec written from the DataSketches cross-language format documentation
//! (DESIGN.md Appendix A). Nothing here is copied from /repo.
pub mod hll;

pub struct Rd<'a> {
    pub b: &'a [u8],
    pub p: usize,
}

impl<'a> Rd<'a> {
    pub fn new(b: &'a [u8]) -> Self {
        Rd { b, p: 0 }
    }
    pub fn at(b: &'a [u8], p: usize) -> Self {
        Rd { b, p }
    }
    pub fn take(&mut self, n: usize, what: &str) -> Result<&'a [u8], String> {
        if self.p + n > self.b.len() {
            return Err(format!("image too short: need {} bytes for {what} at offset {}, image has {}", n, self.p, self.b.len()));
        }
        let s = &self.b[self.p..self.p + n];
        self.p += n;
        Ok(s)
    }
    pub fn u8(&mut self, what: &str) -> Result<u8, String> {
        Ok(self.take(1, what)?[0])
    }
    pub fn u16(&mut self, what: &str) -> Result<u16, String> {
        Ok(u16::from_le_bytes(self.take(2, what)?.try_into().unwrap()))
    }
    pub fn u32(&mut self, what: &str) -> Result<u32, String> {
        Ok(u32::from_le_bytes(self.take(4, what)?.try_into().unwrap()))
    }
    pub fn u64(&mut self, what: &str) -> Result<u64, String> {
        Ok(u64::from_le_bytes(self.take(8, what)?.try_into().unwrap()))
    }
    pub fn f64(&mut self, what: &str) -> Result<f64, String> {
        Ok(f64::from_bits(self.u64(what)?))
    }
    pub fn f32(&mut self, what: &str) -> Result<f32, String> {
        Ok(f32::from_bits(self.u32(what)?))
    }
    pub fn remaining(&self) -> usize {
        self.b.len().saturating_sub(self.p)
    }
}
pub mod td;
pub mod simple;
pub mod theta;
pub mod cpc;
