//! t-digest (family 20, serVer 1) and the reference-implementation (tdunning) big-endian forms —
//! DESIGN.md Appendix A.

use super::Rd;

#[derive(Clone, Debug, PartialEq)]
pub struct TdImage {
    pub k: u16,
    pub empty: bool,
    pub single: bool,
    pub reverse_merge: bool,
    pub min: f64,
    pub max: f64,
    pub centroids: Vec<(f64, u64)>,
    pub buffered: Vec<f64>,
    pub implied_len: usize,
}

pub fn decode(b: &[u8], is_f32: bool) -> Result<TdImage, String> {
    let mut r = Rd::new(b);
    let pre = r.u8("preLongs")?;
    let ser = r.u8("serVer")?;
    let fam = r.u8("family")?;
    let k = r.u16("k")?;
    let flags = r.u8("flags")?;
    let _unused = r.u16("unused")?;
    if ser != 1 {
        return Err(format!("serVer {ser}"));
    }
    if fam != 20 {
        return Err(format!("family {fam}"));
    }
    if k < 10 {
        return Err(format!("k {k} < 10"));
    }
    let empty = flags & 1 != 0;
    let single = flags & 2 != 0;
    let reverse_merge = flags & 4 != 0;
    let want_pre = if empty || single { 1 } else { 2 };
    if pre != want_pre {
        return Err(format!("preLongs {pre}, flags {flags:#x} imply {want_pre}"));
    }
    let mut img = TdImage { k, empty, single, reverse_merge, min: f64::INFINITY, max: f64::NEG_INFINITY, centroids: vec![], buffered: vec![], implied_len: 8 };
    if empty {
        return Ok(img);
    }
    let rv = |r: &mut Rd, w: &str| -> Result<f64, String> { if is_f32 { Ok(r.f32(w)? as f64) } else { r.f64(w) } };
    if single {
        let v = rv(&mut r, "single value")?;
        img.min = v;
        img.max = v;
        img.centroids.push((v, 1));
        img.implied_len = r.p;
        return Ok(img);
    }
    let nc = r.u32("numCentroids")? as usize;
    let nb = r.u32("numBuffered")? as usize;
    img.min = rv(&mut r, "min")?;
    img.max = rv(&mut r, "max")?;
    for _ in 0..nc {
        let m = rv(&mut r, "mean")?;
        let w = if is_f32 { r.u32("weight")? as u64 } else { r.u64("weight")? };
        img.centroids.push((m, w));
    }
    for _ in 0..nb {
        img.buffered.push(rv(&mut r, "buffered value")?);
    }
    img.implied_len = r.p;
    Ok(img)
}

#[derive(Clone, Copy, Debug, PartialEq)]
pub enum Form {
    /// DataSketches native, f64 means / u64 weights
    NativeF64,
    /// DataSketches native, tdigest<float>: f32 means / u32 weights
    NativeF32,
    /// reference implementation asBytes(): big-endian, type 1
    CompatDouble,
    /// reference implementation asSmallBytes(): big-endian, type 2
    CompatFloat,
}

/// Encode a digest: `centroids` sorted by mean, positive weights; `buffered` only for native forms.
pub fn encode(k: u16, min: f64, max: f64, centroids: &[(f64, u64)], buffered: &[f64], reverse_merge: bool, form: Form) -> Vec<u8> {
    let total: u64 = centroids.iter().map(|c| c.1).sum::<u64>() + buffered.len() as u64;
    let mut b = vec![];
    match form {
        Form::NativeF64 | Form::NativeF32 => {
            let f32f = form == Form::NativeF32;
            let empty = total == 0;
            let single = total == 1;
            b.push(if empty || single { 1 } else { 2 });
            b.push(1);
            b.push(20);
            b.extend_from_slice(&k.to_le_bytes());
            b.push((empty as u8) | (single as u8) << 1 | (reverse_merge as u8) << 2);
            b.extend_from_slice(&[0, 0]);
            let put = |b: &mut Vec<u8>, v: f64| {
                if f32f { b.extend_from_slice(&(v as f32).to_le_bytes()) } else { b.extend_from_slice(&v.to_le_bytes()) }
            };
            if empty {
                return b;
            }
            if single {
                let v = centroids.first().map(|c| c.0).unwrap_or_else(|| buffered[0]);
                put(&mut b, v);
                return b;
            }
            b.extend_from_slice(&(centroids.len() as u32).to_le_bytes());
            b.extend_from_slice(&(buffered.len() as u32).to_le_bytes());
            put(&mut b, min);
            put(&mut b, max);
            for &(m, w) in centroids {
                put(&mut b, m);
                if f32f { b.extend_from_slice(&(w as u32).to_le_bytes()) } else { b.extend_from_slice(&w.to_le_bytes()) }
            }
            for &v in buffered {
                put(&mut b, v);
            }
        }
        Form::CompatDouble => {
            b.extend_from_slice(&1u32.to_be_bytes());
            b.extend_from_slice(&min.to_be_bytes());
            b.extend_from_slice(&max.to_be_bytes());
            b.extend_from_slice(&(k as f64).to_be_bytes());
            b.extend_from_slice(&(centroids.len() as u32).to_be_bytes());
            for &(m, w) in centroids {
                b.extend_from_slice(&(w as f64).to_be_bytes());
                b.extend_from_slice(&m.to_be_bytes());
            }
        }
        Form::CompatFloat => {
            b.extend_from_slice(&2u32.to_be_bytes());
            b.extend_from_slice(&min.to_be_bytes());
            b.extend_from_slice(&max.to_be_bytes());
            b.extend_from_slice(&(k as f32).to_be_bytes());
            // main-array and buffer capacities (shorts), then the centroid count (short)
            b.extend_from_slice(&((2 * k + 10).min(i16::MAX as u16)).to_be_bytes());
            b.extend_from_slice(&((10 * k).min(i16::MAX as u16)).to_be_bytes());
            b.extend_from_slice(&(centroids.len() as u16).to_be_bytes());
            for &(m, w) in centroids {
                b.extend_from_slice(&(w as f32).to_be_bytes());
                b.extend_from_slice(&(m as f32).to_be_bytes());
            }
        }
    }
    b
}
