//! HLL (family 7, serVer 1) — see DESIGN.md Appendix A.

use super::Rd;

pub const LG_AUX_ARR_INTS: [u8; 27] = [0, 2, 2, 2, 2, 2, 2, 3, 3, 3, 4, 4, 5, 5, 6, 7, 8, 9, 10, 11, 12, 13, 14, 15, 16, 17, 18];

#[derive(Clone, Debug, PartialEq)]
pub struct HllImage {
    pub lg_k: u8,
    /// 0 = Hll4, 1 = Hll6, 2 = Hll8
    pub tgt: u8,
    /// 0 = list, 1 = set, 2 = hll
    pub mode: u8,
    pub empty_flag: bool,
    pub compact_flag: bool,
    pub ooo_flag: bool,
    pub lg_arr: u8,
    /// list / set: the non-empty coupons in image order
    pub coupons: Vec<u32>,
    /// hll mode: effective register values
    pub registers: Vec<u8>,
    pub cur_min: u8,
    pub num_at_cur_min: u32,
    pub aux: Vec<(u32, u8)>,
    pub hip: f64,
    pub kxq0: f64,
    pub kxq1: f64,
    /// bytes the header implies
    pub implied_len: usize,
}

pub fn reg_bytes(tgt: u8, lg_k: u8) -> usize {
    let k = 1usize << lg_k;
    match tgt {
        0 => k / 2,
        1 => k * 3 / 4 + 1,
        _ => k,
    }
}

/// Decode as a Java/C++ reader would; Err describes why such a reader would reject / misread it.
pub fn decode(b: &[u8]) -> Result<HllImage, String> {
    let mut r = Rd::new(b);
    let pre_ints = r.u8("preInts")?;
    let ser_ver = r.u8("serVer")?;
    let family = r.u8("family")?;
    let lg_k = r.u8("lgK")?;
    let lg_arr = r.u8("lgArr")?;
    let flags = r.u8("flags")?;
    let b6 = r.u8("listCount/curMin")?;
    let mode_byte = r.u8("mode")?;
    if ser_ver != 1 {
        return Err(format!("serVer {ser_ver} != 1"));
    }
    if family != 7 {
        return Err(format!("family {family} != 7"));
    }
    if !(4..=21).contains(&lg_k) {
        return Err(format!("lgK {lg_k} out of 4..=21"));
    }
    if mode_byte & 0xf0 != 0 {
        return Err(format!("mode byte {mode_byte:#x} has high bits set"));
    }
    let mode = mode_byte & 3;
    let tgt = (mode_byte >> 2) & 3;
    if tgt > 2 {
        return Err(format!("target type {tgt}"));
    }
    let empty_flag = flags & 4 != 0;
    let compact_flag = flags & 8 != 0;
    let ooo_flag = flags & 16 != 0;
    let mut img = HllImage {
        lg_k, tgt, mode, empty_flag, compact_flag, ooo_flag, lg_arr,
        coupons: vec![], registers: vec![], cur_min: 0, num_at_cur_min: 0, aux: vec![],
        hip: 0.0, kxq0: 0.0, kxq1: 0.0, implied_len: 0,
    };
    match mode {
        0 => {
            if pre_ints != 2 {
                return Err(format!("list mode preInts {pre_ints} != 2"));
            }
            let count = b6 as usize;
            for i in 0..count {
                let c = r.u32("list coupon")?;
                if c == 0 {
                    return Err(format!("list coupon {i} of {count} is empty (0)"));
                }
                img.coupons.push(c);
            }
            if empty_flag != (count == 0) {
                return Err(format!("empty flag {empty_flag} inconsistent with list count {count}"));
            }
            img.implied_len = 8 + 4 * if compact_flag { count } else { 1usize << lg_arr.min(26) };
        }
        1 => {
            if pre_ints != 3 {
                return Err(format!("set mode preInts {pre_ints} != 3"));
            }
            let count = r.u32("set count")? as usize;
            if compact_flag {
                for _ in 0..count {
                    let c = r.u32("set coupon")?;
                    if c == 0 {
                        return Err("empty coupon in compact set".into());
                    }
                    img.coupons.push(c);
                }
                img.implied_len = 12 + 4 * count;
            } else {
                if lg_arr > 26 {
                    return Err(format!("set lgArr {lg_arr}"));
                }
                let n = 1usize << lg_arr;
                for _ in 0..n {
                    let c = r.u32("set table slot")?;
                    if c != 0 {
                        img.coupons.push(c);
                    }
                }
                if img.coupons.len() != count {
                    return Err(format!("set count {count} but table holds {} coupons", img.coupons.len()));
                }
                img.implied_len = 12 + 4 * n;
            }
        }
        2 => {
            if pre_ints != 10 {
                return Err(format!("hll mode preInts {pre_ints} != 10"));
            }
            img.cur_min = b6;
            img.hip = r.f64("hipAccum")?;
            img.kxq0 = r.f64("kxq0")?;
            img.kxq1 = r.f64("kxq1")?;
            img.num_at_cur_min = r.u32("curMinCount")?;
            let aux_count = r.u32("auxCount")? as usize;
            let k = 1usize << lg_k;
            // register bytes are present in compact and updatable images alike
            let raw = r.take(reg_bytes(tgt, lg_k), "register bytes")?;
            let mut regs = vec![0u8; k];
            match tgt {
                0 => {
                    for s in 0..k {
                        let byte = raw[s / 2];
                        regs[s] = if s & 1 == 0 { byte & 15 } else { byte >> 4 };
                    }
                }
                1 => {
                    for s in 0..k {
                        let bit = 6 * s;
                        let lo = raw[bit / 8] as u16;
                        let hi = *raw.get(bit / 8 + 1).unwrap_or(&0) as u16;
                        regs[s] = (((hi << 8 | lo) >> (bit % 8)) & 0x3f) as u8;
                    }
                }
                _ => regs.copy_from_slice(raw),
            }
            if tgt == 0 {
                // aux section
                let mask = (k - 1) as u32;
                if aux_count > 0 {
                    if compact_flag {
                        for _ in 0..aux_count {
                            let p = r.u32("aux pair")?;
                            img.aux.push((p & 0x3ff_ffff & mask, (p >> 26) as u8));
                        }
                    } else {
                        // updatable: 1 << lgAuxArrInts ints with zeros for empty slots; the lgArr byte carries lgAuxArrInts
                        if lg_arr > 26 {
                            return Err(format!("lgAuxArrInts {lg_arr}"));
                        }
                        let n = 1usize << lg_arr;
                        for _ in 0..n {
                            let p = r.u32("aux table slot")?;
                            if p != 0 {
                                img.aux.push((p & 0x3ff_ffff & mask, (p >> 26) as u8));
                            }
                        }
                        if img.aux.len() != aux_count {
                            return Err(format!(
                                "updatable Hll4 image (COMPACT flag clear): auxCount {aux_count} but the 2^lgArr = {n}-slot aux table a Java/C++ reader reads holds {} pairs",
                                img.aux.len()
                            ));
                        }
                    }
                }
                let mut seen = std::collections::BTreeMap::new();
                for &(s, v) in &img.aux {
                    if seen.insert(s, v).is_some() {
                        return Err(format!("duplicate aux slot {s}"));
                    }
                }
                for s in 0..k {
                    if regs[s] == 15 {
                        match seen.get(&(s as u32)) {
                            Some(&v) => regs[s] = v,
                            None => return Err(format!("slot {s} holds AUX_TOKEN but has no aux entry (auxCount {aux_count}, {} pairs read)", img.aux.len())),
                        }
                    } else {
                        regs[s] += img.cur_min;
                    }
                }
                img.implied_len = 40 + k / 2 + 4 * if compact_flag { aux_count } else if aux_count > 0 { 1usize << lg_arr } else { 0 };
            } else {
                if aux_count != 0 {
                    return Err(format!("auxCount {aux_count} on non-Hll4 image"));
                }
                if img.cur_min != 0 {
                    return Err(format!("curMin {} on non-Hll4 image", img.cur_min));
                }
                img.implied_len = 40 + reg_bytes(tgt, lg_k);
            }
            img.registers = regs;
        }
        m => return Err(format!("cur mode {m}")),
    }
    Ok(img)
}

#[derive(Clone, Copy, Debug, PartialEq)]
pub enum Layout {
    /// COMPACT flag set (Java toCompactByteArray / C++ serialize_compact)
    Compact,
    /// COMPACT flag clear (Java toUpdatableByteArray / C++ serialize_updatable)
    Updatable,
}

fn inv_pow2(v: u8) -> f64 {
    f64::from_bits(((1023 - v as u64) & 0x7ff) << 52)
}

pub fn kxq(regs: &[u8]) -> (f64, f64) {
    let mut a = 0.0;
    let mut b = 0.0;
    for &v in regs {
        if v < 32 { a += inv_pow2(v) } else { b += inv_pow2(v) }
    }
    (a, b)
}

/// Open-addressing table as the Java/C++ writers lay it out (coupon & mask, odd stride from the slot bits).
fn coupon_table(coupons: &[u32], lg_arr: u8) -> Vec<u32> {
    let n = 1usize << lg_arr;
    let mask = (n - 1) as u32;
    let mut t = vec![0u32; n];
    for &c in coupons {
        let mut probe = c & mask;
        let stride = ((c & 0x3ff_ffff) >> lg_arr) | 1;
        loop {
            if t[probe as usize] == 0 || t[probe as usize] == c {
                t[probe as usize] = c;
                break;
            }
            probe = (probe + stride) & mask;
        }
    }
    t
}

/// Encode an abstract HLL state the way a Java/C++ writer would.
/// `coupons` for list/set; `regs` (effective values) for hll mode.
pub fn encode(lg_k: u8, tgt: u8, mode: u8, coupons: &[u32], regs: &[u8], ooo: bool, hip: f64, layout: Layout) -> Vec<u8> {
    let mut b = vec![];
    let compact = layout == Layout::Compact;
    match mode {
        0 => {
            let lg_arr = 3u8;
            b.extend_from_slice(&[2, 1, 7, lg_k, lg_arr]);
            let mut flags = 0u8;
            if coupons.is_empty() { flags |= 4 }
            if compact { flags |= 8 }
            b.push(flags);
            b.push(coupons.len() as u8);
            b.push(tgt << 2);
            for &c in coupons {
                b.extend_from_slice(&c.to_le_bytes());
            }
            if !compact {
                for _ in coupons.len()..8 {
                    b.extend_from_slice(&0u32.to_le_bytes());
                }
            }
        }
        1 => {
            let mut lg_arr = 5u8;
            while 4 * coupons.len() > 3 * (1usize << lg_arr) {
                lg_arr += 1;
            }
            b.extend_from_slice(&[3, 1, 7, lg_k, lg_arr]);
            b.push(if compact { 8 } else { 0 });
            b.push(0);
            b.push(1 | tgt << 2);
            b.extend_from_slice(&(coupons.len() as u32).to_le_bytes());
            if compact {
                for &c in coupons {
                    b.extend_from_slice(&c.to_le_bytes());
                }
            } else {
                for c in coupon_table(coupons, lg_arr) {
                    b.extend_from_slice(&c.to_le_bytes());
                }
            }
        }
        _ => {
            let k = 1usize << lg_k;
            assert_eq!(regs.len(), k);
            let cur_min = if tgt == 0 { *regs.iter().min().unwrap() } else { 0 };
            let num_at = regs.iter().filter(|&&v| v == cur_min).count() as u32;
            let (kxq0, kxq1) = kxq(regs);
            let aux: Vec<(u32, u8)> = if tgt == 0 {
                regs.iter().enumerate().filter(|(_, v)| **v - cur_min >= 15).map(|(s, v)| (s as u32, *v)).collect()
            } else {
                vec![]
            };
            let mut lg_aux = LG_AUX_ARR_INTS[lg_k as usize];
            while 4 * aux.len() > 3 * (1usize << lg_aux) {
                lg_aux += 1;
            }
            b.extend_from_slice(&[10, 1, 7, lg_k, if tgt == 0 { lg_aux } else { 0 }]);
            let mut flags = 0u8;
            if compact { flags |= 8 }
            if ooo { flags |= 16 }
            b.push(flags);
            b.push(cur_min);
            b.push(2 | tgt << 2);
            b.extend_from_slice(&hip.to_le_bytes());
            b.extend_from_slice(&kxq0.to_le_bytes());
            b.extend_from_slice(&kxq1.to_le_bytes());
            b.extend_from_slice(&num_at.to_le_bytes());
            b.extend_from_slice(&(aux.len() as u32).to_le_bytes());
            match tgt {
                0 => {
                    let mut raw = vec![0u8; k / 2];
                    for s in 0..k {
                        let d = regs[s] - cur_min;
                        let nib = if d >= 15 { 15 } else { d };
                        if s & 1 == 0 { raw[s / 2] |= nib } else { raw[s / 2] |= nib << 4 }
                    }
                    b.extend_from_slice(&raw);
                    if compact {
                        for &(s, v) in &aux {
                            b.extend_from_slice(&(((v as u32) << 26) | s).to_le_bytes());
                        }
                    } else {
                        // updatable: the full 1 << lgAuxArrInts table, present even when empty
                        let n = 1usize << lg_aux;
                        let mask = (n - 1) as u32;
                        let mut t = vec![0u32; n];
                        for &(s, v) in &aux {
                            let mut probe = s & mask;
                            let stride = (s >> lg_aux) | 1;
                            while t[probe as usize] != 0 {
                                probe = (probe + stride) & mask;
                            }
                            t[probe as usize] = ((v as u32) << 26) | s;
                        }
                        for p in t {
                            b.extend_from_slice(&p.to_le_bytes());
                        }
                    }
                }
                1 => {
                    let mut raw = vec![0u8; k * 3 / 4 + 1];
                    for s in 0..k {
                        let bit = 6 * s;
                        let v = (regs[s] as u16 & 0x3f) << (bit % 8);
                        raw[bit / 8] |= v as u8;
                        raw[bit / 8 + 1] |= (v >> 8) as u8;
                    }
                    b.extend_from_slice(&raw);
                }
                _ => b.extend_from_slice(regs),
            }
        }
    }
    b
}
