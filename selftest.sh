#!/bin/bash
# ./check selftest determinism — every scenario, N runs, executed 2x per profile with 1 and 16 worker
# threads in separate processes; the batch digest (hash of every run's script and of every
# invariant-visible observation) and the set of violation classes must be identical.
set -u
cd "$(dirname "$0")"
N="${SELFTEST_RUNS:-2000}"
fail=0
for sc in $(sim/target/release/sketchsim list); do
  n=$N
  case "$sc" in c14_corruption) n=200;; c15_tdigest|c10_tdigest|c02_hll_replicas|c05_cpc_replicas) n=$((N/2));; esac
  ref=""
  for bin in sim/target/release/sketchsim sim/target/debug/sketchsim; do
    for jobs in 1 16 16; do
      out=$(VERIF_JOBS=$jobs $bin digest "$sc" quick "$n" 2>/dev/null | tail -1 | sed 's/ armed / PROFILE /; s/ release / PROFILE /')
      if [ -z "$ref" ]; then ref="$out"; fi
      if [ "$out" != "$ref" ]; then echo "NON-DETERMINISTIC $sc ($bin, jobs=$jobs):"; echo "  $ref"; echo "  $out"; fail=1; fi
    done
  done
  echo "ok $sc: $(echo "$ref" | cut -c1-120)"
done
[ $fail = 0 ] && echo "determinism selftest passed" || { echo "determinism selftest FAILED"; exit 2; }
